"""Engine C: type-level witnesses (compile_fail doc tests with error codes and
compiling twins) run under `cargo +nightly test --doc --offline`."""
import os
import re
import shutil
import subprocess

from .report import Broken

VERIF = os.path.dirname(os.path.dirname(os.path.abspath(__file__)))
WDIR = os.path.join(VERIF, "witness")
SERVES = {
    "W1GroupingContainerNoMutableBypass": ["C01", "C20"],
    "W2TagNotForgeable": ["C20"],
    "W3ExpansionInputCannotMutateState": ["C01"],
    "W4ExpansionInputCannotMutateCommands": ["C01"],
    "W5MatcherPatternImmutable": ["C20"],
    "W6VmShutdownPrivate": ["C09"],
}
_cache = {}


def run_all():
    if "res" in _cache:
        return _cache["res"]
    shutil.copy("/repo/Cargo.lock", os.path.join(WDIR, "Cargo.lock"))
    env = dict(os.environ, CARGO_NET_OFFLINE="true", CARGO_TARGET_DIR=os.path.join(VERIF, ".cache", "witness-target"))
    r = subprocess.run(["cargo", "+nightly", "test", "--doc", "--offline"], cwd=WDIR, env=env,
                       stdout=subprocess.PIPE, stderr=subprocess.STDOUT, text=True)
    res = {}
    for m in re.finditer(r"^test src/lib\.rs - (\w+) \(line (\d+)\)( - compile fail)? \.\.\. (\w+)", r.stdout, re.M):
        res.setdefault(m.group(1), []).append((int(m.group(2)), bool(m.group(3)), m.group(4)))
    if not res:
        raise Broken("witness crate did not run: %s" % r.stdout[-800:])
    _cache["res"] = res
    return res


def run(R, props):
    R.rule("W", "type-level witnesses: a compile_fail,E0nnn doc test (the violating program must not type-check, with that error code) paired with a "
                "compiling twin that differs only in the offending line")
    res = run_all()
    n = 0
    for w, serves in SERVES.items():
        if not any(p in serves for p in props):
            continue
        tests = res.get(w)
        if not tests or len(tests) != 2:
            raise Broken("witness %s: expected twin + witness, got %s" % (w, tests))
        n += 1
        twin = [t for t in tests if not t[1]]
        wit = [t for t in tests if t[1]]
        if not twin or not wit:
            raise Broken("witness %s lacks its twin or its compile_fail half" % w)
        if twin[0][2] != "ok":
            raise Broken("witness %s: the compiling twin does not compile — the witness proves nothing" % w)
        if wit[0][2] == "ok":
            R.ok("W", w, "violating program rejected with the expected error code; twin compiles", "witness/src/lib.rs:%d" % wit[0][0], how="compile-fail")
        else:
            R.violation("W", w, "the program that should be rejected by the type system now compiles (or fails with a different error): %s" % w, "witness/src/lib.rs:%d" % wit[0][0])
    return n
