import sys
from . import extract, facts

def main():
    cmd = sys.argv[1] if len(sys.argv) > 1 else ""
    if cmd == "dump":
        d, _ = extract.ensure_facts()
        F = facts.Facts(d)
        for f in F.fns_matching(sys.argv[2]):
            print(facts.dump_fn(f))
            print()
    elif cmd == "ls":
        d, _ = extract.ensure_facts()
        F = facts.Facts(d)
        for f in F.fns_matching(sys.argv[2]):
            print(f.id, "|", f.name, "|", "%s:%d" % (f.file, f.line))
    elif cmd == "adt":
        import json
        d, _ = extract.ensure_facts()
        F = facts.Facts(d)
        for n, a in F.adts.items():
            if sys.argv[2] in n:
                print(json.dumps(a, indent=1))
    else:
        print("usage: python3 -m txv dump|ls|adt <regex>")

main()
