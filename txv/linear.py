"""Linear-resource (typestate) analysis for a non-Copy token type carried in
Result / ControlFlow / Option wrappers: reports every program point where a
value that may hold the token is dropped instead of being propagated.

Forward may-dataflow over one MIR body.  State: set of carrier locals that may
currently hold an unconsumed token.
"""
from .cfg import reachable
from .dataflow import op_place, rv_operands
from .facts import callee_name, strip_generics


def split_generics(ty):
    """'a::B<X, Y<Z>>' -> ('a::B', ['X', 'Y<Z>'])"""
    i = ty.find("<")
    if i < 0 or not ty.endswith(">"):
        return ty, []
    base = ty[:i]
    inner = ty[i + 1:-1]
    args = []
    depth = 0
    cur = ""
    for ch in inner:
        if ch in "<([":
            depth += 1
        elif ch in ">)]":
            depth -= 1
        if ch == "," and depth == 0:
            args.append(cur.strip())
            cur = ""
        else:
            cur += ch
    if cur.strip():
        args.append(cur.strip())
    return base, args


class Linear:
    def __init__(self, F, token_ty, never_err=None, sinks=(), propagators=()):
        self.F = F
        self.token = token_ty
        self.never_err = never_err or set()
        self.sinks = set(sinks)
        self.propagators = set(propagators)

    # ---- type helpers
    def is_carrier_ty(self, ty):
        return self.token in ty and not ty.startswith(("&", "*", "fn(", "for<", "unsafe fn", "extern"))

    def variant_carries(self, ty, variant_idx):
        """Does variant #idx of enum type `ty` hold the token?  None = unknown."""
        base, args = split_generics(ty)
        if base == "core::result::Result" and len(args) == 2:
            return self.token in args[0] if variant_idx == 0 else self.token in args[1]
        if base == "core::ops::control_flow::ControlFlow" and len(args) >= 1:
            # Continue = 0 (C = args[1]), Break = 1 (B = args[0])
            if variant_idx == 0:
                return len(args) > 1 and self.token in args[1]
            return self.token in args[0]
        if base == "core::option::Option" and len(args) == 1:
            return variant_idx == 1
        return None

    # ---- analysis of one function
    def analyse(self, fn):
        """Returns list of leaks: dict(kind, local, bb, loc, born)."""
        carriers = {i for i, (ty, _) in enumerate(fn.locals) if self.is_carrier_ty(ty)}
        if not carriers:
            return None
        nblocks = len(fn.blocks)
        IN = [None] * nblocks
        IN[0] = frozenset()
        # arguments that are carriers are live on entry
        entry = set()
        for a in range(1, fn.argc + 1):
            if a in carriers:
                entry.add(a)
        IN[0] = frozenset(entry)
        leaks = {}
        born = {}
        work = [0]
        succ_all = fn.succ()
        iters = 0
        while work:
            iters += 1
            if iters > 20000:
                break
            b = work.pop()
            state = set(IN[b])
            blk = fn.blocks[b]
            if blk.get("cleanup"):
                continue
            for si, st in enumerate(blk["s"]):
                self._stmt(fn, carriers, state, st, b, leaks, born)
            t = blk["t"]
            edge_kill = {}
            k = t["k"]
            if k == "call":
                self._call(fn, carriers, state, t, b, leaks, born)
            elif k == "switch":
                edge_kill = self._switch_kills(fn, carriers, blk, t)
            elif k == "return":
                for l in sorted(state):
                    if l != 0:
                        leaks.setdefault((l, b, "return"), {"kind": "live-at-return", "local": l, "bb": b, "loc": fn.loc(t), "born": born.get(l)})
            elif k == "drop":
                pl = t["pl"]
                if not pl["p"] and pl["l"] in state:
                    leaks.setdefault((pl["l"], b, "drop"), {"kind": "dropped", "local": pl["l"], "bb": b, "loc": fn.loc(t), "born": born.get(pl["l"])})
                    state.discard(pl["l"])
            for s in succ_all[b]:
                out = set(state)
                for l in edge_kill.get(s, ()):  # dead on this edge
                    out.discard(l)
                new = frozenset(out) if IN[s] is None else frozenset(IN[s] | out)
                if IN[s] is None or new != IN[s]:
                    IN[s] = new
                    work.append(s)
        return list(leaks.values())

    def _consume_operand(self, fn, carriers, state, o):
        """A `move` of a carrier place consumes it. Returns the base local if the
        operand mentions a live carrier (moved), else None."""
        p = op_place(o)
        if p is None:
            return None
        l = p["l"]
        if l in carriers and l in state and "mv" in o:
            # moving out the token-carrying part: projections into the non-token
            # variant (e.g. `(_r as Continue).0`) do not consume
            if p["p"]:
                dc = [e for e in p["p"] if isinstance(e, dict) and "dc" in e]
                if dc:
                    vc = self.variant_carries(fn.local_ty(l), dc[0]["dc"])
                    if vc is False:
                        return None
            state.discard(l)
            return l
        return None

    def _stmt(self, fn, carriers, state, st, b, leaks, born):
        k = st["k"]
        if k == "dead":
            l = st["l"]
            if l in state:
                leaks.setdefault((l, b, "dead"), {"kind": "storage-dead-while-live", "local": l, "bb": b, "loc": born.get(l) or "?", "born": born.get(l)})
                state.discard(l)
            return
        if k != "=":
            return
        lhs = st["lhs"]
        rv = st["rv"]
        moved = []
        for o in rv_operands(rv):
            if rv["k"] in ("ref", "rawptr", "discr"):
                continue
            m = self._consume_operand(fn, carriers, state, o)
            if m is not None:
                moved.append(m)
        dl = lhs["l"]
        if dl in carriers:
            if not lhs["p"]:
                if dl in state and dl not in moved:
                    leaks.setdefault((dl, b, "overwrite"), {"kind": "overwritten-while-live", "local": dl, "bb": b, "loc": fn.loc(st), "born": born.get(dl)})
                if moved:
                    state.add(dl)
                    born.setdefault(dl, fn.loc(st))
                else:
                    # a fresh aggregate holding the token type itself (`ShutdownSignal {}`,
                    # `Err(ShutdownSignal{})`) creates one
                    if rv["k"] == "agg" and rv.get("ak") == "adt":
                        if rv["adt"] == self.token:
                            state.add(dl)
                            born.setdefault(dl, fn.loc(st))
                        else:
                            vc = self.variant_carries(fn.local_ty(dl), rv["vi"])
                            if vc and any(self._op_is_token_const(fn, o) for o in rv["ops"]):
                                state.add(dl)
                                born.setdefault(dl, fn.loc(st))
                            else:
                                state.discard(dl)
                    else:
                        state.discard(dl)
            elif moved:
                state.add(dl)
                born.setdefault(dl, fn.loc(st))
        elif moved:
            # moved into a non-carrier place: the token is gone
            for m in moved:
                leaks.setdefault((m, b, "moved-away"), {"kind": "moved-into-non-carrier", "local": m, "bb": b, "loc": fn.loc(st), "born": born.get(m)})

    def _op_is_token_const(self, fn, o):
        c = o.get("c")
        return bool(c and c.get("ty") == self.token)

    def _call(self, fn, carriers, state, t, b, leaks, born):
        name = strip_generics(callee_name(t) or "")
        gname = strip_generics(t["callee"]["fn"]) if t.get("callee") else ""
        moved = []
        for a in t["args"]:
            m = self._consume_operand(fn, carriers, state, a)
            if m is not None:
                moved.append(m)
        dest = t["dest"]
        dl = dest["l"]
        dest_is_carrier = dl in carriers
        if t.get("t") is None:
            return  # diverges
        if dest_is_carrier and not dest["p"]:
            if dl in state and dl not in moved:
                leaks.setdefault((dl, b, "overwrite"), {"kind": "overwritten-while-live", "local": dl, "bb": b, "loc": fn.loc(t), "born": born.get(dl)})
            rid = t.get("callee", {}).get("rid") or t.get("callee", {}).get("id")
            if rid in self.never_err and not moved:
                state.discard(dl)
            else:
                state.add(dl)
                born[dl] = fn.loc(t)
        elif dest_is_carrier:
            state.add(dl)
            born[dl] = fn.loc(t)
        if moved and not dest_is_carrier:
            if name in self.sinks or gname in self.sinks:
                return
            for m in moved:
                leaks.setdefault((m, b, "arg"), {"kind": "passed-to-non-propagating-call", "callee": name, "local": m, "bb": b, "loc": fn.loc(t), "born": born.get(m)})

    def _switch_kills(self, fn, carriers, blk, t):
        """On a switch over discriminant(_c) for a carrier _c, the token is
        absent on edges to variants that do not carry it."""
        p = op_place(t["op"])
        if p is None or p["p"]:
            return {}
        src = None
        for st in blk["s"]:
            if st["k"] == "=" and st["lhs"]["l"] == p["l"] and not st["lhs"]["p"] and st["rv"]["k"] == "discr":
                pl = st["rv"]["pl"]
                if not pl["p"] and pl["l"] in carriers:
                    src = pl["l"]
        if src is None:
            return {}
        ty = fn.local_ty(src)
        variants = self.F.enum_variants(ty) or []
        by_discr = {d: vi for (_, d, vi) in variants}
        kills = {}
        seen_vals = set()
        for val, tgt in t["ts"]:
            seen_vals.add(val)
            vi = by_discr.get(val, val)
            vc = self.variant_carries(ty, vi)
            if vc is False:
                kills.setdefault(tgt, set()).add(src)
        # otherwise-edge: covers the remaining variants
        rest = [vi for (_, d, vi) in variants if d not in seen_vals]
        if rest and all(self.variant_carries(ty, vi) is False for vi in rest):
            kills.setdefault(t["else"], set()).add(src)
        # an edge target reached by both a carrying and a non-carrying value must not kill
        carrying_targets = set()
        for val, tgt in t["ts"]:
            vi = by_discr.get(val, val)
            if self.variant_carries(ty, vi) is not False:
                carrying_targets.add(tgt)
        if rest and not all(self.variant_carries(ty, vi) is False for vi in rest):
            carrying_targets.add(t["else"])
        for tgt in carrying_targets:
            kills.pop(tgt, None)
        return kills


def never_err_summary(F, token_ty, fns):
    """Least fixpoint: functions returning a carrier whose every returned value
    is an `Ok(..)`/`Continue(..)`/`None` aggregate without the token, or the
    result of an already-summarised callee."""
    from .cfg import Defs
    result = set()
    cand = []
    for fn in fns:
        if token_ty in fn.local_ty(0) and not fn.local_ty(0).startswith("&") and fn.local_ty(0) != token_ty:
            cand.append(fn)
    lin = Linear(F, token_ty)
    changed = True
    while changed:
        changed = False
        for fn in cand:
            if fn.id in result:
                continue
            if _all_returns_ok(fn, lin, result):
                result.add(fn.id)
                changed = True
    return result


def _all_returns_ok(fn, lin, known):
    from .cfg import Defs
    defs = Defs(fn)
    seen = set()
    stack = [0]
    any_def = False
    while stack:
        l = stack.pop()
        if l in seen:
            continue
        seen.add(l)
        ds = defs.defs.get(l, [])
        if not ds and l != 0:
            return False
        for d in ds:
            any_def = True
            if d[0] == "call":
                t = d[3]
                rid = t.get("callee", {}).get("rid") or t.get("callee", {}).get("id")
                if rid not in known:
                    return False
            else:
                st = d[3]
                if st["k"] != "=" or st["lhs"]["p"]:
                    return False
                rv = st["rv"]
                if rv["k"] == "agg" and rv.get("ak") == "adt":
                    vc = lin.variant_carries(fn.local_ty(l), rv["vi"])
                    if vc is not False:
                        return False
                elif rv["k"] == "use":
                    p = op_place(rv["op"])
                    if p is None or p["p"]:
                        return False
                    stack.append(p["l"])
                else:
                    return False
    return any_def
