"""Finite-domain specialisation of one MIR body ("decision-table extraction").

A small abstract interpreter: values are integer constants, enum variants,
tuples of values, symbolic linear forms `sym + k`, or unknown.  Conditional
constant propagation seeded with entry assumptions (a type-keyed assumption
"every place of enum type T holds variant v", or an argument constant); known
switches are folded, unknown ones fork.  Per explored path it records an event
trace (interesting calls with abstract arguments, enum aggregates, stores to
interesting fields) and how the path ends.  Loops are cut at back-edges.
Not a solver: no path constraints beyond the equalities implied by folding.
"""
from .facts import callee_name, strip_generics, fmt_place, const_str
from .dataflow import op_place

UNKNOWN = ("?",)


def C(v):
    return ("c", v)


def is_const(v):
    return v[0] == "c"


def V(enum, vi, name=None):
    return ("v", enum, vi, name)


class TooManyPaths(Exception):
    pass


class Path:
    __slots__ = ("events", "end", "blocks", "forks", "ret")

    def __init__(self, events, end, blocks, forks, ret):
        self.events = events
        self.end = end
        self.blocks = blocks
        self.forks = forks
        self.ret = ret

    def __repr__(self):
        return "<Path end=%s events=%s forks=%s>" % (self.end, self.events, self.forks)


class EDT:
    def __init__(self, F, fn, type_assume=None, arg_assume=None, interesting_calls=(), interesting_fields=(),
                 follow_try_continue=True, max_paths=4000, call_models=None, record_aggs=(), sym_args=None, pins=None):
        self.F = F
        self.fn = fn
        self.type_assume = type_assume or {}      # enum path -> variant idx
        self.arg_assume = arg_assume or {}        # local -> value
        self.calls = tuple(interesting_calls)
        self.fields = set(interesting_fields)
        self.follow_try = follow_try_continue
        self.max_paths = max_paths
        self.models = call_models or {}
        self.record_aggs = set(record_aggs)
        self.sym_args = sym_args or {}
        self.pins = pins or {}
        self.paths = []
        self.error_exits = 0

    # ------------------------------------------------ values
    def enum_of_ty(self, ty):
        t = ty
        while t.startswith("&"):
            t = t[1:].lstrip()
            if t.startswith("mut "):
                t = t[4:]
        return strip_generics(t)

    def read_place(self, env, mem, p):
        key = fmt_place(None, p)
        if key in mem:
            return mem[key]
        v = env.get(p["l"], UNKNOWN)
        if p["l"] in self.sym_args and not p["p"] and v == UNKNOWN:
            return ("s", self.sym_args[p["l"]], 0)
        ty = self.fn.local_ty(p["l"])
        for e in p["p"]:
            if e == "*":
                # deref of a reference: if the ref is a known pointer-to-place, follow
                if v[0] == "ref":
                    inner = v[1]
                    v = self.read_place(env, mem, inner)
                elif v[0] == "pref":
                    v = v[1]
                continue
            if isinstance(e, dict) and "f" in e:
                if v[0] == "t" and e["f"] < len(v[1]):
                    v = v[1][e["f"]]
                elif v[0] == "agg" and e["f"] < len(v[2]):
                    v = v[2][e["f"]]
                else:
                    # symbolic field of an argument
                    v = UNKNOWN
                    sym = self._sym_field(p)
                    if sym is not None:
                        v = sym
                ty = e["t"]
            elif isinstance(e, dict) and "dc" in e:
                if v[0] == "agg":
                    pass
                continue
            else:
                v = UNKNOWN
        return v

    def _sym_field(self, p):
        """`(*arg).field` / `((*arg) as V).k` of a symbolic argument -> ('s', name, 0)"""
        if p["l"] in self.sym_args:
            parts = []
            for e in p["p"]:
                if isinstance(e, dict) and "f" in e:
                    parts.append(e["n"] or str(e["f"]))
                elif isinstance(e, dict) and "dc" in e:
                    parts.append(e["n"])
            return ("s", self.sym_args[p["l"]] + "." + ".".join(parts), 0)
        return None

    def eval_op(self, env, mem, o):
        if "c" in o:
            c = o["c"]
            if "int" in c:
                return C(c["int"])
            if "fn" in c:
                return ("fn", c.get("rfn") or c["fn"])
            sv = const_str(c)
            if sv is not None:
                return ("str", sv)
            if "promoted" in c:
                return self._promoted(c["promoted"])
            return UNKNOWN
        p = op_place(o)
        if p is None:
            return UNKNOWN
        return self.read_place(env, mem, p)

    def _promoted(self, idx):
        """value of a promoted constant: straight-line evaluation of its tiny body; a reference to a
        promoted value is ("pref", value)"""
        ps = self.fn.raw.get("promoted") or []
        if idx >= len(ps):
            return UNKNOWN
        env = {}

        def ev(o):
            if "c" in o:
                c = o["c"]
                if "int" in c:
                    return C(c["int"])
                sv = const_str(c)
                if sv is not None:
                    return ("str", sv)
                return UNKNOWN
            pl = op_place(o)
            if pl is None or pl["p"]:
                return UNKNOWN
            return env.get(pl["l"], UNKNOWN)
        for b in ps[idx]["blocks"]:
            for st in b["s"]:
                if st["k"] != "=" or st["lhs"]["p"]:
                    continue
                rv = st["rv"]
                if rv["k"] == "use":
                    env[st["lhs"]["l"]] = ev(rv["op"])
                elif rv["k"] == "ref" and not rv["pl"]["p"]:
                    env[st["lhs"]["l"]] = ("pref", env.get(rv["pl"]["l"], UNKNOWN))
                elif rv["k"] == "agg" and rv["ak"] in ("tuple", "array"):
                    env[st["lhs"]["l"]] = ("t", [ev(o) for o in rv["ops"]])
                elif rv["k"] == "agg" and rv["ak"] == "adt":
                    env[st["lhs"]["l"]] = ("agg", rv["adt"], [ev(o) for o in rv["ops"]], rv["vi"] if self.F.enums.get(rv["adt"]) else None, rv["variant"])
                else:
                    env[st["lhs"]["l"]] = UNKNOWN
        return env.get(0, UNKNOWN)

    def place_type(self, p):
        ty = self.fn.local_ty(p["l"])
        for e in p["p"]:
            if e == "*":
                t = ty
                if t.startswith("&"):
                    t = t[1:].lstrip()
                    if t.startswith("'"):
                        t = t.split(" ", 1)[1] if " " in t else t
                    if t.startswith("mut "):
                        t = t[4:]
                ty = t
            elif isinstance(e, dict) and "f" in e:
                ty = e["t"]
            elif isinstance(e, dict) and "dc" in e:
                pass
            else:
                return None
        return ty

    def eval_rv(self, env, mem, rv):
        k = rv["k"]
        if k == "use":
            return self.eval_op(env, mem, rv["op"])
        if k == "discr":
            p = rv["pl"]
            key = fmt_place(None, p)
            v = mem.get(key)
            if v is None:
                v = self.read_place(env, mem, p)
            if v[0] == "v":
                return C(self._discr(v[1], v[2]))
            if v[0] == "agg" and v[3] is not None:
                return C(self._discr(v[1], v[3]))
            ty = self.place_type(p) or rv["ty"]
            en = self.enum_of_ty(ty)
            if en in self.type_assume:
                return C(self._discr(en, self.type_assume[en]))
            return UNKNOWN
        if k == "agg":
            ak = rv["ak"]
            ops = [self.eval_op(env, mem, o) for o in rv["ops"]]
            if ak == "adt":
                variants = self.F.enums.get(rv["adt"])
                if variants is not None:
                    return ("agg", rv["adt"], ops, rv["vi"], rv["variant"])
                return ("agg", rv["adt"], ops, None, rv["variant"])
            if ak in ("tuple", "array"):
                return ("t", ops)
            return UNKNOWN
        if k == "bin":
            a = self.eval_op(env, mem, rv["a"])
            b = self.eval_op(env, mem, rv["b"])
            return self._binop(rv["op"], a, b)
        if k == "un":
            a = self.eval_op(env, mem, rv["a"])
            if is_const(a):
                if rv["op"] == "Not":
                    if a[1] in (0, 1):
                        return C(1 - a[1])
                    return UNKNOWN
                if rv["op"] == "Neg":
                    return C(-a[1])
            return UNKNOWN
        if k == "cast":
            a = self.eval_op(env, mem, rv["op"])
            if rv["ck"] in ("IntToInt",) and is_const(a):
                return C(_wrap(a[1], rv["ty"]))
            if rv["ck"] in ("IntToInt",) and a[0] == "s":
                return a
            if rv["ck"].startswith(("ReifyFnPointer", "Unsize", "MutToConstPointer")):
                return a
            if rv["ck"] == "IntToInt" and a[0] == "v":
                return C(self._discr(a[1], a[2]))
            return UNKNOWN
        if k == "ref" or k == "rawptr":
            return ("ref", rv["pl"])
        return UNKNOWN

    def _discr(self, enum, vi):
        vs = self.F.enums.get(enum) or []
        for name, d, v in vs:
            if v == vi:
                return d
        return vi

    def _binop(self, op, a, b):
        checked = op.endswith("WithOverflow")
        base = op.replace("WithOverflow", "").replace("Unchecked", "")
        if is_const(a) and is_const(b):
            x, y = a[1], b[1]
            r = None
            try:
                if base == "Add":
                    r = x + y
                elif base == "Sub":
                    r = x - y
                elif base == "Mul":
                    r = x * y
                elif base == "Div":
                    r = int(x / y) if y else None
                elif base == "Rem":
                    r = x - y * int(x / y) if y else None
                elif base == "BitAnd":
                    r = x & y
                elif base == "BitOr":
                    r = x | y
                elif base == "BitXor":
                    r = x ^ y
                elif base == "Shl":
                    r = x << y
                elif base == "Shr":
                    r = x >> y
                elif base == "Eq":
                    r = int(x == y)
                elif base == "Ne":
                    r = int(x != y)
                elif base == "Lt":
                    r = int(x < y)
                elif base == "Le":
                    r = int(x <= y)
                elif base == "Gt":
                    r = int(x > y)
                elif base == "Ge":
                    r = int(x >= y)
            except Exception:
                r = None
            if r is None:
                return UNKNOWN
            if checked:
                return ("t", [C(r), C(0)])
            return C(r)
        # symbolic linear forms: sym + k
        if a[0] == "s" and is_const(b) and base in ("Add", "Sub"):
            k = a[2] + (b[1] if base == "Add" else -b[1])
            r = ("s", a[1], k)
            return ("t", [r, C(0)]) if checked else r
        if b[0] == "s" and is_const(a) and base == "Add":
            r = ("s", b[1], b[2] + a[1])
            return ("t", [r, C(0)]) if checked else r
        if checked:
            return ("t", [UNKNOWN, UNKNOWN])
        return UNKNOWN

    # ------------------------------------------------ exploration
    def run(self, start=0, env=None, mem=None):
        env = dict(env or {})
        for l, v in self.arg_assume.items():
            env[l] = v
        for l, v in self.pins.items():
            env[l] = v
        self._explore(start, env, dict(mem or {}), [], [], [], set())
        return self.paths

    def _explore(self, b, env, mem, events, blocks, forks, onpath):
        stack = [(b, env, mem, events, blocks, forks, frozenset(onpath))]
        while stack:
            b, env, mem, events, blocks, forks, onpath = stack.pop()
            if len(self.paths) > self.max_paths:
                raise TooManyPaths(self.fn.name)
            # straight-line execution until a fork
            while True:
                if b in onpath:
                    self.paths.append(Path(events, ("loop", b), blocks + [b], forks, None))
                    break
                onpath = onpath | {b}
                blocks = blocks + [b]
                blk = self.fn.blocks[b]
                for st in blk["s"]:
                    self._stmt(env, mem, st, events)
                t = blk["t"]
                k = t["k"]
                if k == "goto":
                    b = t["t"]
                    continue
                if k == "return":
                    self.paths.append(Path(events, ("return",), blocks, forks, env.get(0, UNKNOWN)))
                    break
                if k in ("unreachable", "resume", "abort"):
                    self.paths.append(Path(events, (k,), blocks, forks, None))
                    break
                if k == "assert":
                    c = self.eval_op(env, mem, t["cond"])
                    if is_const(c) and bool(c[1]) != t["exp"]:
                        self.paths.append(Path(events, ("assert-fails", t["ak"]), blocks, forks, None))
                        break
                    b = t["t"]
                    continue
                if k == "drop":
                    b = t["t"]
                    continue
                if k == "call":
                    nxt = self._call(env, mem, t, events)
                    if nxt is None:
                        self.paths.append(Path(events, ("diverge", callee_name(t), (t.get("macs") or [None])[-1]), blocks, forks, None))
                        break
                    b = nxt
                    continue
                if k == "switch":
                    v = self.eval_op(env, mem, t["op"])
                    if is_const(v):
                        tgt = t["else"]
                        for val, bb in t["ts"]:
                            if val == v[1]:
                                tgt = bb
                        b = tgt
                        continue
                    # fork
                    targets = []
                    for val, bb in t["ts"]:
                        targets.append((val, bb))
                    targets.append(("else", t["else"]))
                    seen_t = set()
                    first = True
                    for val, bb in targets:
                        if bb in seen_t:
                            continue
                        seen_t.add(bb)
                        if self.fn.blocks[bb]["t"]["k"] == "unreachable" and not self.fn.blocks[bb]["s"]:
                            continue
                        nf = forks + [(b, self.fn.loc(t), val, self._describe(t["op"], v))]
                        nenv = dict(env)
                        # learn equality for symbolic/unknown locals
                        p = op_place(t["op"])
                        if p is not None and not p["p"] and val != "else":
                            nenv[p["l"]] = C(val)
                        stack.append((bb, nenv, dict(mem), list(events), list(blocks), nf, onpath))
                    break
                # anything else: stop
                self.paths.append(Path(events, (k,), blocks, forks, None))
                break

    def _describe(self, op, v):
        p = op_place(op)
        if p is None:
            return "const"
        if v[0] == "s":
            return "sym:%s%+d" % (v[1], v[2])
        return fmt_place(self.fn, p)

    def _stmt(self, env, mem, st, events):
        if st["k"] == "setdiscr":
            return
        if st["k"] != "=":
            return
        lhs = st["lhs"]
        val = self.eval_rv(env, mem, st["rv"])
        rv = st["rv"]
        if rv["k"] == "agg" and rv.get("ak") == "adt" and rv["adt"] in self.record_aggs:
            events.append(("agg", rv["adt"], rv["variant"], tuple(_short(x) for x in (val[2] if val[0] == "agg" else [])), self.fn.loc(st)))
        if not lhs["p"]:
            if lhs["l"] in self.pins:
                val = self.pins[lhs["l"]]
            env[lhs["l"]] = val
            # invalidate memory entries based on this local
            pref = "_%d" % lhs["l"]
            for k2 in [k2 for k2 in mem if k2 == pref or k2.startswith(pref + ".") or k2.startswith("(*" + pref + ")")]:
                del mem[k2]
        else:
            key = fmt_place(None, lhs)
            mem[key] = val
            names = [e["n"] for e in lhs["p"] if isinstance(e, dict) and "f" in e]
            if names and names[-1] in self.fields:
                events.append(("store", ".".join(names), _short(val), self.fn.loc(st)))

    def _call(self, env, mem, t, events):
        name = strip_generics(callee_name(t) or "")
        gname = strip_generics(t["callee"]["fn"]) if t.get("callee") else ""
        args = [self.eval_op(env, mem, a) for a in t["args"]]
        self._cur_env, self._cur_mem = env, mem
        self._cur_events = events
        dest = t["dest"]
        val = UNKNOWN
        model = self.models.get(name) or self.models.get(gname) or BUILTIN_MODELS.get(name)
        if model is not None:
            val = model(self, args, t)
        elif name.endswith("Deref>::deref") or gname.endswith("Deref::deref") or name.endswith("::as_str") or name.endswith("AsRef>::as_ref"):
            val = args[0] if args else UNKNOWN
        elif self.follow_try and (name.endswith("Try>::branch") or gname.endswith("Try::branch")):
            self.error_exits += 1
            payload = UNKNOWN
            if args and args[0][0] == "agg" and args[0][2]:
                payload = args[0][2][0]
            val = ("agg", "core::ops::control_flow::ControlFlow", [payload], 0, "Continue")
        for pat in self.calls:
            if name == pat or name.endswith("::" + pat) or gname == pat or gname.endswith("::" + pat):
                shown = []
                for a in args:
                    pre = ""
                    for _ in range(3):
                        if a[0] != "ref":
                            break
                        inner = self.read_place(env, mem, a[1])
                        if inner[0] in ("str", "c"):
                            a = inner
                            break
                        if inner[0] in ("s", "ref"):
                            a = inner
                            pre = "&"
                            continue
                        break
                    sv = _short(a)
                    shown.append(pre + sv if pre and isinstance(sv, str) else sv)
                events.append(("call", pat, tuple(shown), self.fn.loc(t)))
                break
        # a call taking `&mut place` may change it
        for a in t["args"]:
            p = op_place(a)
            if p is not None and not p["p"]:
                v = env.get(p["l"], UNKNOWN)
                if v[0] == "ref":
                    key = fmt_place(None, v[1])
                    for k2 in [k2 for k2 in mem if k2.startswith(key)]:
                        del mem[k2]
        if not dest["p"]:
            env[dest["l"]] = val
        else:
            mem[fmt_place(None, dest)] = val
        return t.get("t")


class _IsVariant:
    def __init__(self, names):
        self.names = names

    def __call__(self, edt, args, t):
        if not args:
            return UNKNOWN
        a = args[0]
        if a[0] == "ref":
            a = edt.read_place(edt._cur_env, edt._cur_mem, a[1])
        if a[0] == "agg" and a[4] is not None:
            return C(1 if a[4] in self.names else 0)
        return UNKNOWN


def _identity(edt, args, t):
    if args and args[0][0] in ("c", "s"):
        return args[0]
    return UNKNOWN


def _deref_arg(edt, a):
    for _ in range(3):
        if a[0] == "ref":
            a = edt.read_place(edt._cur_env, edt._cur_mem, a[1])
        elif a[0] == "pref":
            a = a[1]
        else:
            break
    return a


def _cmp_model(edt, args, t):
    if len(args) != 2:
        return UNKNOWN
    a, b = _deref_arg(edt, args[0]), _deref_arg(edt, args[1])
    if is_const(a) and is_const(b):
        o = (a[1] > b[1]) - (a[1] < b[1])
        name = {-1: "Less", 0: "Equal", 1: "Greater"}[o]
        return ("agg", "core::cmp::Ordering", [], {-1: 0, 0: 1, 1: 2}[o], name)
    return UNKNOWN


def _replace_model(edt, args, t):
    """core::mem::replace(&mut place, v): returns old, stores v"""
    if len(args) != 2 or args[0][0] != "ref":
        return UNKNOWN
    pl = args[0][1]
    # `(*_9)` where _9 = &mut (*_1).scope  ->  (*_1).scope
    for _ in range(4):
        if pl["p"] and pl["p"][0] == "*":
            base = edt._cur_env.get(pl["l"], UNKNOWN)
            if base[0] == "ref":
                pl = {"l": base[1]["l"], "p": list(base[1]["p"]) + list(pl["p"][1:])}
                continue
        break
    old = edt.read_place(edt._cur_env, edt._cur_mem, pl)
    edt._cur_mem[fmt_place(None, pl)] = args[1]
    names = [e["n"] for e in pl["p"] if isinstance(e, dict) and "f" in e]
    if names and names[-1] in edt.fields:
        edt._cur_events.append(("store", ".".join(names), _short(args[1]), edt.fn.loc(t)))
    return old


def _ok_or_model(edt, args, t):
    """Option::ok_or / ok_or_else: Some(x) -> Ok(x), None -> Err(_)"""
    a = args[0] if args else UNKNOWN
    if a[0] == "agg" and a[4] == "Some":
        return ("agg", "core::result::Result", list(a[2]), 0, "Ok")
    if a[0] == "agg" and a[4] == "None":
        return ("agg", "core::result::Result", [UNKNOWN], 1, "Err")
    return UNKNOWN


def _is_some_and_model(edt, args, t):
    """Option::is_some_and / is_none_or on a known None: decided without running the closure"""
    a = args[0] if args else UNKNOWN
    last = (t.get("callee") or {}).get("fn", "").split("::")[-1].split("<")[0]
    if a[0] == "agg" and a[4] == "None":
        return ("c", last == "is_none_or")
    if a[0] == "agg" and a[4] == "Some" and len(t.get("args") or []) >= 2:
        # run the predicate: the closure is the nested function defined on the line its type names; it is specialised under the same type
        # assumptions (e.g. the branch kind), and only a unanimous constant answer is used
        import re
        from .dataflow import op_place
        p = op_place(t["args"][1])
        ty = edt.fn.local_ty(p["l"]) if p is not None else ""
        m = re.search(r":(\d+):\d+: \d+:\d+\}", ty)
        cands = [edt.F.fns[c] for c in edt.F.closures_of(edt.fn.id)] if m else []
        cands = [g for g in cands if g.line == int(m.group(1))] if m else []
        if len(cands) == 1:
            sub = EDT(edt.F, cands[0], type_assume=edt.type_assume)
            rets = set()
            for sp in sub.run():
                if sp.end[0] != "return" or not sp.ret or sp.ret[0] != "c":
                    return UNKNOWN
                rets.add(bool(sp.ret[1]))
            if len(rets) == 1:
                return ("c", next(iter(rets)))
    return UNKNOWN


BUILTIN_MODELS = {
    "core::option::Option::is_some_and": _is_some_and_model,
    "core::option::Option::<T>::is_some_and": _is_some_and_model,
    "core::option::Option::is_none_or": _is_some_and_model,
    "core::option::Option::<T>::is_none_or": _is_some_and_model,
    "core::option::Option::ok_or": _ok_or_model,
    "core::option::Option::ok_or_else": _ok_or_model,
    "core::option::Option::<T>::ok_or": _ok_or_model,
    "core::option::Option::<T>::ok_or_else": _ok_or_model,
    "core::cmp::Ord::cmp": _cmp_model,
    "core::cmp::impls::<impl core::cmp::Ord for i32>::cmp": _cmp_model,
    "core::mem::replace": _replace_model,
    "core::convert::Into::into": _identity,
    "core::convert::From::from": _identity,
    "<T as core::convert::Into>::into": _identity,
    "core::option::Option::is_none": _IsVariant(("None",)),
    "core::option::Option::is_some": _IsVariant(("Some",)),
    "core::result::Result::is_ok": _IsVariant(("Ok",)),
    "core::result::Result::is_err": _IsVariant(("Err",)),
}


def _short(v):
    if v[0] == "c":
        return v[1]
    if v[0] == "v":
        return "%s#%s" % (v[1].split("::")[-1], v[3] or v[2])
    if v[0] == "agg":
        return "%s::%s(%s)" % (v[1].split("::")[-1], v[4], ",".join(str(_short(x)) for x in v[2]))
    if v[0] == "s":
        return "%s%+d" % (v[1], v[2]) if v[2] else v[1]
    if v[0] == "t":
        return tuple(_short(x) for x in v[1])
    if v[0] == "str":
        return "str:" + v[1]
    if v[0] == "fn":
        return "fn:" + v[1]
    if v[0] == "ref":
        return "&" + fmt_place(None, v[1])
    return "?"


def _wrap(x, ty):
    bits = {"u8": 8, "u16": 16, "u32": 32, "u64": 64, "usize": 64, "i8": 8, "i16": 16, "i32": 32, "i64": 64, "isize": 64, "u128": 128, "i128": 128}.get(ty)
    if bits is None:
        return x
    x &= (1 << bits) - 1
    if ty.startswith("i") and x >= (1 << (bits - 1)):
        x -= 1 << bits
    return x
