"""Matching of potential-panic sites to table entries (audited invariants, recorded findings) that survives the edits a
maintainer makes without changing behaviour: a site keeps its entry when it moves within its *function family* (the
function, the items nested in it, and private helpers that are only called from inside the family) or when a same-kind
site is inserted before it (ordinals shift).  Identity is decided by, in this order:
  1. the exact key, if the entry has no recorded snippet or the snippet still matches;
  2. the same kind/what and the same (whitespace-normalised) source snippet anywhere in the family;
  3. the exact key with a changed snippet (a rename inside the expression), only when the numbers of still unmatched
     sites and entries of that kind/what in that function agree;
  3b. any unused entry of the family with the same kind/what whose own key is gone, only when the numbers of still unmatched
     sites and of such entries in the family agree (moved and renamed at once).
An entry is used for at most one site."""
import re
from .facts import strip_generics


def norm_snip(s):
    return re.sub(r"\s+", "", s or "")


def same_snip(a, b):
    """snippets are cut to a fixed number of characters before they reach us: equal up to the shorter one (when long enough)"""
    a, b = norm_snip(a), norm_snip(b)
    if a == b:
        return True
    n = min(len(a), len(b))
    return n >= 24 and a[:n] == b[:n]


def kind_what(key):
    """`fn|K3|Overflow:Sub|usize,usize#0` -> ('fn', 'K3|Overflow:Sub|usize,usize', 0)"""
    fnpart, rest = key.split("|", 1)
    m = re.match(r"^(.*)#(\d+)$", rest)
    if m:
        return fnpart, m.group(1), int(m.group(2))
    return fnpart, rest, 0


def kw_class(kw):
    """coarser identity used together with an equal snippet: the receiver type of an index / slice call may change when code
    moves into a helper that takes a slice instead of a Vec"""
    parts = kw.split("|")
    if parts[0] == "K4" and len(parts) > 1 and parts[1].startswith("index:"):
        return "K4|index"
    return kw


class Families:
    def __init__(self, F, cg=None):
        self.names = {}
        for f in F.fns.values():
            self.names.setdefault(strip_generics(f.name), []).append(f)
        self.F = F
        self._root = {}
        self._helpers = {}   # helper fn name -> family root it belongs to
        if cg is not None:
            self._single_caller_helpers(cg)

    def _nest_root(self, name):
        """outermost existing function this (possibly vanished) nested item belongs to"""
        cur = name
        best = name if name in self.names else None
        while "::" in cur:
            cur = cur.rsplit("::", 1)[0]
            if cur in self.names:
                best = cur
            elif best is not None:
                break
        return best or name

    def _single_caller_helpers(self, cg):
        F = self.F
        callers = {}
        for src, dsts in cg.edges.items():
            for d in dsts:
                callers.setdefault(d, set()).add(src)
        changed = True
        fam_of = {}
        for f in F.fns.values():
            fam_of[f.id] = self._nest_root(strip_generics(f.name))
        rounds = 0
        while changed and rounds < 4:
            changed = False
            rounds += 1
            for f in F.fns.values():
                nm = strip_generics(f.name)
                if fam_of[f.id] != self._nest_root(nm):
                    continue  # already adopted
                cs = callers.get(f.id, set()) - {f.id}
                if not cs:
                    continue
                fams = {fam_of.get(c) for c in cs}
                own = self._nest_root(nm)
                if len(fams) == 1 and own not in fams and all(F.fns[c].file == f.file for c in cs if c in F.fns):
                    fam_of[f.id] = next(iter(fams))
                    changed = True
        for f in F.fns.values():
            nm = strip_generics(f.name)
            if fam_of[f.id] != self._nest_root(nm):
                self._helpers[self._nest_root(nm)] = fam_of[f.id]

    def root(self, name):
        if name in self._root:
            return self._root[name]
        r = self._nest_root(name)
        seen = set()
        while r in self._helpers and r not in seen:
            seen.add(r)
            r = self._helpers[r]
        self._root[name] = r
        return r


def match_sites(families, sites, entries, consolidate=False):
    """sites: list of (key, snippet); entries: dict key -> entry (may have 'snip').
    Returns dict site key -> entry key."""
    out = {}
    used = set()
    by_root = {}
    for ek in entries:
        if "|" not in ek:
            continue
        by_root.setdefault(families.root(ek.split("|", 1)[0]), []).append(ek)
    site_keys = {k for k, _ in sites}
    # pass 1
    pending = []
    for k, snip in sites:
        e = entries.get(k)
        if e is not None and (not e.get("snip") or same_snip(e["snip"], snip)):
            out[k] = k
            used.add(k)
        else:
            pending.append((k, snip))
    # pass 2: same kind/what + same snippet within the family
    still = []
    for k, snip in pending:
        if "|" not in k:
            still.append((k, snip))
            continue
        fnpart, kw, _ = kind_what(k)
        root = families.root(fnpart)
        ns = norm_snip(snip)
        cands = [ek for ek in by_root.get(root, []) if ek not in used and kw_class(kind_what(ek)[1]) == kw_class(kw) and entries[ek].get("snip") and same_snip(entries[ek]["snip"], snip)
                 and (ek not in site_keys or ek in [p[0] for p in pending])]
        if ns and len(cands) >= 1:
            # prefer an entry of the same function, then the lowest ordinal
            cands.sort(key=lambda ek: (kind_what(ek)[0] != fnpart, kind_what(ek)[2]))
            out[k] = cands[0]
            used.add(cands[0])
        else:
            still.append((k, snip))
    # pass 3: exact key, snippet changed (rename), counts agree
    counts_s, counts_e = {}, {}
    for kk, _ in still:
        if "|" in kk:
            f0, kw0, _ = kind_what(kk)
            counts_s[(f0, kw0)] = counts_s.get((f0, kw0), 0) + 1
    for ek in entries:
        if ek not in used and "|" in ek:
            f0, kw0, _ = kind_what(ek)
            counts_e[(f0, kw0)] = counts_e.get((f0, kw0), 0) + 1
    for k, snip in still:
        e = entries.get(k)
        if e is None or k in used or "|" not in k:
            continue
        fnpart, kw, _ = kind_what(k)
        if counts_s.get((fnpart, kw)) == counts_e.get((fnpart, kw)):
            out[k] = k
            used.add(k)
    # pass 3b: moved *and* renamed (code extracted into a helper whose parameters have other names): within a family, when the number of
    # still unmatched sites of a kind/what equals the number of unused entries of that kind/what whose own key is no longer produced
    left = [(k, s) for k, s in sites if k not in out and "|" in k]
    groups = {}
    for k, s in left:
        fnpart, kw, _ = kind_what(k)
        groups.setdefault((families.root(fnpart), kw), []).append(k)     # the exact kind/what: without an equal snippet, `str` and `[u8]` indexing must not stand for each other
    for (root, kwc), ks in sorted(groups.items()):
        left_keys = {k for k, _ in left}
        cands = sorted((ek for ek in by_root.get(root, []) if ek not in used and ek not in left_keys and kind_what(ek)[1] == kwc),
                       key=lambda ek: (kind_what(ek)[0], kind_what(ek)[2]))
        if cands and len(cands) == len(ks):
            for k, ek in zip(sorted(ks, key=lambda kk: (kind_what(kk)[0], kind_what(kk)[2])), cands):
                out[k] = ek
                used.add(ek)
    if consolidate:
        # pass 4 (recorded findings only): sites of a kind/what that are still unmatched in a family while the family has at
        # least as many unmatched recorded entries of that kind/what — the code was consolidated or moved with edits
        left_sites = [(k, s) for k, s in sites if k not in out and "|" in k]
        for k, snip in left_sites:
            fnpart, kw, _ = kind_what(k)
            root = families.root(fnpart)
            cands = sorted(ek for ek in by_root.get(root, []) if ek not in used and ek not in site_keys and kw_class(kind_what(ek)[1]) == kw_class(kw))
            n_left = sum(1 for kk, _ in left_sites if kk not in out and families.root(kind_what(kk)[0]) == root and kw_class(kind_what(kk)[1]) == kw_class(kw))
            if cands and n_left <= len(cands):
                out[k] = cands[0]
                used.add(cands[0])
    return out
