"""Rule results -> stdout contract, findings files, evidence file."""
import json
import os
import sys
import time

VERIF = os.path.dirname(os.path.dirname(os.path.abspath(__file__)))


class Broken(Exception):
    """The analysis itself could not be carried out (missing anchor, count
    below floor, extraction failure): exit 2, no verdict."""


class Report:
    def __init__(self, pid, tier):
        self.pid = pid
        self.tier = tier
        self.t0 = time.time()
        self.obligations = []   # dicts: rule, instance, status, detail, loc
        self.violations = []    # dicts: rule, key, msg, loc, detail
        self.rules = {}         # rule -> description
        self.units = {}
        self.notes = []
        self.floor_failures = []
        self.assumptions = []
        self.trusted = []
        self.extra = {}

    # ---- recording
    def rule(self, rid, text):
        self.rules[rid] = text

    def ok(self, rule, instance, detail=None, loc=None, how=None):
        self.obligations.append({"rule": rule, "instance": instance, "status": "discharged",
                                 "how": how, "detail": detail, "loc": loc})

    def violation(self, rule, key, msg, loc=None, detail=None):
        self.obligations.append({"rule": rule, "instance": key, "status": "violated",
                                 "detail": msg, "loc": loc})
        self.violations.append({"property": self.pid, "rule": rule, "key": key, "msg": msg,
                                "loc": loc, "detail": detail})

    def undecided(self, rule, instance, detail=None, loc=None):
        self.obligations.append({"rule": rule, "instance": instance, "status": "undecided",
                                 "detail": detail, "loc": loc})

    def floor(self, rule, what, got, floor):
        self.units["%s:%s" % (rule, what)] = {"found": got, "floor": floor}
        if got < floor:
            # deferred: a run that has real violations reports them (exit 1); a run without any is broken (exit 2),
            # because the rule would otherwise pass vacuously
            self.floor_failures.append("%s: %s: found %d instances, floor is %d (rule would pass vacuously)" % (rule, what, got, floor))

    def note(self, text):
        self.notes.append(text)

    # ---- finishing
    def finish(self, explanation, info):
        known = load_known()
        out_lines = []
        n_new = 0
        n_known = 0
        fdir = os.path.join(VERIF, "findings", self.pid)
        os.makedirs(fdir, exist_ok=True)
        for old in os.listdir(fdir):
            try:
                os.unlink(os.path.join(fdir, old))
            except OSError:
                pass
        seen_keys = set()
        produced = {v["key"] for v in self.violations} | {o["instance"] for o in self.obligations if isinstance(o.get("instance"), str)}
        produced_ok = {o["instance"] for o in self.obligations if isinstance(o.get("instance"), str) and o["status"] == "discharged"}
        # recorded findings whose site moved within its function family / whose ordinal shifted
        moved_known = {}
        fams = getattr(self, "families", None)
        if fams is not None:
            from .sitematch import match_sites
            by_rule = {}
            for v in self.violations:
                if "|" in v["key"]:
                    by_rule.setdefault((v["property"], v["rule"]), []).append(v)
            for (pp, rr), vs in by_rule.items():
                ents = {kk[2]: d for kk, d in known.items() if kk[0] == pp and kk[1] == rr and d.get("status") == "known" and "|" in kk[2] and kk[2] not in produced_ok}
                if not ents:
                    continue
                m = match_sites(fams, [(v["key"], (v.get("detail") or {}).get("snip") if isinstance(v.get("detail"), dict) else None) for v in vs], ents, consolidate=True)
                for sk, ek in m.items():
                    if sk != ek:
                        moved_known[(pp, rr, sk)] = (pp, rr, ek)
        for i, v in enumerate(self.violations):
            k = (v["property"], v["rule"], v["key"])
            if k in seen_keys:
                continue
            seen_keys.add(k)
            kf = known.get(k)
            if kf is None and k in moved_known:
                kf = known[moved_known[k]]
            if kf is not None and kf.get("status") == "known":
                n_known += 1
                out_lines.append("KNOWN-FINDING: property=%s %s [%s %s] %s" % (
                    self.pid, kf.get("what", v["msg"]), v["rule"], v["key"], v.get("loc") or ""))
                continue
            n_new += 1
            path = os.path.join(fdir, "%d.json" % i)
            with open(path, "w") as fh:
                json.dump(v, fh, indent=1)
            out_lines.append("VIOLATION property=%s replay=%s" % (self.pid, path))
            out_lines.append("  rule=%s key=%s at %s: %s" % (v["rule"], v["key"], v.get("loc"), v["msg"]))
        if self.floor_failures:
            if n_new == 0:
                raise Broken("; ".join(self.floor_failures))
            for ff in self.floor_failures:
                out_lines.append("  note: instance floor not met — %s" % ff)
        wall = time.time() - self.t0
        n_ob = len(self.obligations)
        n_dis = sum(1 for o in self.obligations if o["status"] == "discharged")
        n_und = sum(1 for o in self.obligations if o["status"] == "undecided")
        hist = {}
        for o in self.obligations:
            kk = "%s/%s" % (o["rule"], o.get("how") or o["status"])
            hist[kk] = hist.get(kk, 0) + 1
        distinct = len({(o["rule"], json.dumps(o["instance"], sort_keys=True)) for o in self.obligations})
        samples = []
        per_rule = {}
        for o in self.obligations:
            per_rule.setdefault(o["rule"], []).append(o)
        for r, obs in sorted(per_rule.items()):
            for o in obs[:6]:
                samples.append({"rule": r, "instance": o["instance"], "status": o["status"],
                                "how": o.get("how"), "loc": o.get("loc"), "detail": o.get("detail")})
        ev = {
            "property_id": self.pid,
            "tier": self.tier,
            "seed": int(os.environ.get("VERIF_SEED", "0") or 0),
            "level": "other",
            "coverage": {
                "explanation": explanation,
                "obligations": n_ob,
                "discharged": n_dis,
                "undecided": n_und,
                "violated_known": n_known,
                "violated_new": n_new,
                "evaluations": n_ob,
                "distinct_nontrivial": distinct,
                "rule": "one obligation per rule instance found in /repo's MIR facts; distinct = distinct (rule, instance) pairs; every instance examined at least one CFG path, table cell or site",
                "rules": self.rules,
                "by_rule_and_discharge": hist,
                "units": self.units,
                "facts": info,
                "samples": samples,
                "notes": self.notes,
                "trusted_base": self.trusted or [
                    "rustc nightly type checker, MIR construction (mir-opt-level=0) and Instance resolution",
                    "txv-driver JSON lowering of MIR",
                ],
                "checker_cmd": "./check %s --tier %s" % (self.pid, self.tier),
                "exhaustive": False,
            },
            "assumptions": self.assumptions,
            "wall_s": round(wall, 2),
            "violations": n_new,
        }
        ev["coverage"].update(self.extra)
        os.makedirs(os.path.join(VERIF, "evidence"), exist_ok=True)
        with open(os.path.join(VERIF, "evidence", "%s.json" % self.pid), "w") as fh:
            json.dump(ev, fh, indent=1)
        for l in out_lines:
            print(l)
        print("%s %s: %d obligations, %d discharged, %d undecided, %d known findings, %d new violations (%.1fs)" % (
            self.pid, self.tier, n_ob, n_dis, n_und, n_known, n_new, wall))
        return 1 if n_new else 0


def load_known():
    """known_findings.jsonl: {"status":"known"|"fixed", "property", "rule", "key", "what", ...}"""
    out = {}
    p = os.path.join(VERIF, "known_findings.jsonl")
    if not os.path.exists(p):
        return out
    for line in open(p):
        line = line.strip()
        if not line or line.startswith("#"):
            continue
        d = json.loads(line)
        out[(d["property"], d["rule"], d["key"])] = d
    return out
