"""CFG utilities over the MIR facts: dominators, reachability, loops, path
search, must-pass-through, local definitions."""
from collections import deque

from .facts import callee_name, strip_generics


# ------------------------------------------------------------ basic graph

def reachable(fn, start=0, blocked=(), include_unwind=False):
    succ = fn.succ(include_unwind)
    blocked = set(blocked)
    seen = set()
    if start in blocked:
        return seen
    dq = deque([start])
    seen.add(start)
    while dq:
        b = dq.popleft()
        for s in succ[b]:
            if s not in seen and s not in blocked:
                seen.add(s)
                dq.append(s)
    return seen


def dominators(fn):
    """dom[b] = set of blocks dominating b (normal edges only)."""
    succ = fn.succ()
    n = len(fn.blocks)
    reach = reachable(fn)
    order = _rpo(succ, 0)
    pred = fn.pred()
    full = set(order)
    dom = {b: set(full) for b in order}
    dom[0] = {0}
    changed = True
    while changed:
        changed = False
        for b in order:
            if b == 0:
                continue
            ps = [p for p in pred[b] if p in reach]
            if not ps:
                continue
            new = set.intersection(*[dom[p] for p in ps]) | {b}
            if new != dom[b]:
                dom[b] = new
                changed = True
    return dom


def _rpo(succ, start):
    seen = set()
    out = []
    stack = [(start, iter(succ[start]))]
    seen.add(start)
    while stack:
        b, it = stack[-1]
        adv = False
        for s in it:
            if s not in seen:
                seen.add(s)
                stack.append((s, iter(succ[s])))
                adv = True
                break
        if not adv:
            out.append(b)
            stack.pop()
    out.reverse()
    return out


def back_edges(fn):
    """(src, dst) edges where dst dominates src."""
    dom = dominators(fn)
    out = []
    for b, ss in enumerate(fn.succ()):
        if b not in dom:
            continue
        for s in ss:
            if s in dom[b]:
                out.append((b, s))
    return out


def natural_loops(fn):
    """list of (header, set(blocks))"""
    pred = fn.pred()
    loops = {}
    for src, hdr in back_edges(fn):
        body = loops.setdefault(hdr, {hdr})
        stack = [src]
        while stack:
            x = stack.pop()
            if x not in body:
                body.add(x)
                stack.extend(pred[x])
    return sorted(loops.items())


def sccs(fn):
    """Tarjan; returns list of sets with a cycle (size>1 or self-loop)."""
    succ = fn.succ()
    index = {}
    low = {}
    onstack = set()
    stack = []
    out = []
    counter = [0]
    import sys
    sys.setrecursionlimit(max(10000, len(succ) * 4))

    def strong(v):
        index[v] = low[v] = counter[0]
        counter[0] += 1
        stack.append(v)
        onstack.add(v)
        for w in succ[v]:
            if w not in index:
                strong(w)
                low[v] = min(low[v], low[w])
            elif w in onstack:
                low[v] = min(low[v], index[w])
        if low[v] == index[v]:
            comp = set()
            while True:
                w = stack.pop()
                onstack.discard(w)
                comp.add(w)
                if w == v:
                    break
            if len(comp) > 1 or v in succ[v]:
                out.append(comp)

    for v in sorted(reachable(fn)):
        if v not in index:
            strong(v)
    return out


def find_path(fn, starts, goal_pred, blocked=()):
    """BFS shortest path (list of blocks) from any of `starts` to a block
    satisfying goal_pred, never entering `blocked` blocks."""
    succ = fn.succ()
    blocked = set(blocked)
    prev = {}
    dq = deque()
    for s in starts:
        if s in blocked:
            continue
        prev[s] = None
        dq.append(s)
    while dq:
        b = dq.popleft()
        if goal_pred(b):
            path = []
            x = b
            while x is not None:
                path.append(x)
                x = prev[x]
            return list(reversed(path))
        for s in succ[b]:
            if s not in prev and s not in blocked:
                prev[s] = b
                dq.append(s)
    return None


def path_lines(fn, path):
    out = []
    for b in path:
        t = fn.blocks[b]["t"]
        out.append("bb%d@%s" % (b, fn.loc(t)))
    return out


# ------------------------------------------------------------ exits

def is_return(fn, b):
    return fn.blocks[b]["t"]["k"] == "return"


RESULT = "core::result::Result"


def err_blocks(fn):
    """Blocks after which the function is committed to returning an error:
    `_0 = Err(..)` aggregates and `_0 = from_residual(..)` calls."""
    out = set()
    for i, b in enumerate(fn.blocks):
        for st in b["s"]:
            if st["k"] == "=" and st["lhs"]["l"] == 0 and not st["lhs"]["p"]:
                rv = st["rv"]
                if rv["k"] == "agg" and rv.get("ak") == "adt" and rv["adt"] == RESULT and rv["variant"] == "Err":
                    out.add(i)
        t = b["t"]
        if t["k"] == "call" and t["dest"]["l"] == 0 and not t["dest"]["p"]:
            n = callee_name(t) or ""
            if n.endswith("FromResidual::from_residual") or "from_residual" in n:
                out.add(i)
    return out


def diverging_blocks(fn):
    """Blocks whose terminator never continues normally (panics etc.)."""
    out = set()
    for i, b in enumerate(fn.blocks):
        t = b["t"]
        if t["k"] in ("unreachable", "resume", "abort"):
            out.add(i)
        if t["k"] == "call" and t.get("t") is None:
            out.add(i)
    return out


def normal_exit_avoiding(fn, event_blocks, starts=(0,), extra_blocked=()):
    """Path from `starts` to a Return that (a) never enters an event block and
    (b) never enters an error-commit block.  None if every normal path passes
    an event.  If a start block is itself an event it is skipped."""
    blocked = set(event_blocks) | err_blocks(fn) | set(extra_blocked)
    return find_path(fn, [s for s in starts], lambda b: is_return(fn, b), blocked)


# ------------------------------------------------------------ defs / uses

class Defs:
    """Per-function table: local -> list of definitions.
    A definition is ('st', bb, idx, stmt) or ('call', bb, term)."""

    def __init__(self, fn):
        self.fn = fn
        self.defs = {}
        for bi, b in enumerate(fn.blocks):
            for si, st in enumerate(b["s"]):
                if st["k"] in ("=", "setdiscr"):
                    self.defs.setdefault(st["lhs"]["l"], []).append(("st", bi, si, st))
            t = b["t"]
            if t["k"] == "call":
                self.defs.setdefault(t["dest"]["l"], []).append(("call", bi, None, t))

    def single(self, local):
        if 1 <= local <= self.fn.argc:
            # an argument is defined at entry as well: an explicit assignment is never its only definition
            return None
        d = [x for x in self.defs.get(local, []) if not self._is_partial(x)]
        if len(d) == 1:
            return d[0]
        return None

    @staticmethod
    def _is_partial(d):
        if d[0] == "st":
            return bool(d[3]["lhs"]["p"])
        return bool(d[3]["dest"]["p"])

    def resolve_place(self, op_or_place, depth=8):
        """Follow copies/moves/refs of single-definition temporaries to the
        underlying place: `_3 = &mut (*_1).commands; f(move _3)` -> `(*_1).commands`.
        Returns a place dict (possibly with merged projections) or None."""
        p = op_or_place
        if "cp" in p:
            p = p["cp"]
        elif "mv" in p:
            p = p["mv"]
        elif "c" in p:
            return None
        for _ in range(depth):
            if self.fn.local_name(p["l"]) is not None or p["l"] <= self.fn.argc:
                return p
            d = self.single(p["l"])
            if d is None or d[0] != "st" or d[3]["k"] != "=":
                return p
            rv = d[3]["rv"]
            if rv["k"] == "ref" or rv["k"] == "rawptr":
                inner = rv["pl"]
                # `&P` followed by a deref projection on our side cancels
                rest = p["p"]
                if rest and rest[0] == "*":
                    rest = rest[1:]
                    p = {"l": inner["l"], "p": inner["p"] + rest}
                elif not rest:
                    # a reference value: represent as the place it points to, marked
                    p = {"l": inner["l"], "p": inner["p"], "ref": True}
                    # keep following the inner local
                    if p["p"] and p["p"][0] == "*":
                        # (*_x).f : follow _x
                        base = self.resolve_place({"cp": {"l": inner["l"], "p": []}}, depth - 1)
                        if base is not None and base.get("ref"):
                            return {"l": base["l"], "p": base["p"] + inner["p"][1:], "ref": True}
                    return p
                else:
                    return p
            elif rv["k"] == "use":
                o = rv["op"]
                q = o.get("cp") or o.get("mv")
                if q is None:
                    return p
                p = {"l": q["l"], "p": q["p"] + p["p"]}
            else:
                return p
        return p


def field_path(place):
    """Names of the field projections of a place (ignoring derefs/downcasts)."""
    out = []
    for e in place["p"]:
        if isinstance(e, dict) and "f" in e:
            out.append(e["n"] or str(e["f"]))
    return out


def place_mentions_field(place, name):
    return name in field_path(place)


def call_matches(t, names):
    """Does call terminator `t` call one of `names` (generic-stripped path
    suffix match against both the static callee and the resolved instance)?"""
    c = t.get("callee")
    if not c:
        return False
    cands = [c["fn"]]
    if c.get("rfn"):
        cands.append(c["rfn"])
    for cand in cands:
        sg = strip_generics(cand)
        for n in names:
            if sg == n or sg.endswith("::" + n):
                return True
    return False


def blocks_calling(fn, names):
    return [i for i, t in fn.calls() if call_matches(t, names)]
