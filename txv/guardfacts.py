"""Guard facts of a potential-panic site: the integer intervals that dominating comparisons with constants impose on *named* values
(locals, arguments, fields of stable bases, lengths) at the site.  They are recorded with an audited table entry when the hand
argument is written (`guards`), and re-derived on every run: the argument was made under those guards, so each of them must still
dominate the site, with the same or a tighter interval.  A weakened or vanished guard (`value >= 18` -> `value > 18`) is exactly the
edit a prose argument cannot notice."""
from .pps import INT_RANGE


def _name(fn, k):
    if isinstance(k, int):
        return fn.local_name(k)
    base = fn.local_name(k[1]) or ("arg%d" % k[1] if 1 <= k[1] <= fn.argc else None)
    if base is None:
        return None
    path = ".".join("*" if x == "*" else str(x if not isinstance(x, tuple) else "v%s" % x[1]) for x in k[2])
    return "%s(%s%s)" % ("len" if k[0] == "L" else "val", base, ("." + path) if path else "")


def _edge_interval(D, key, site_bb):
    """interval from dominating comparison edges only (range_of also folds in what a widening cast says, which is a fact about types)"""
    lo = hi = None
    nes = set()
    for (bi, tt, ft, op, al, ac, bl, bc) in D._cmp_edges():
        for target, truth in ((tt, True), (ft, False)):
            if target is None or not D._edge_dominates(bi, target, site_bb):
                continue
            o = op if truth else {"Lt": "Ge", "Le": "Gt", "Gt": "Le", "Ge": "Lt", "Eq": "Ne", "Ne": "Eq"}[op]
            if al == key and bc is not None:
                c = bc
            elif bl == key and ac is not None:
                c = ac
                o = {"Lt": "Gt", "Le": "Ge", "Gt": "Lt", "Ge": "Le", "Eq": "Eq", "Ne": "Ne"}[o]
            else:
                continue
            if not D._fact_valid(key, bi, target, site_bb):
                continue
            if o == "Lt":
                hi = c - 1 if hi is None else min(hi, c - 1)
            elif o == "Le":
                hi = c if hi is None else min(hi, c)
            elif o == "Gt":
                lo = c + 1 if lo is None else max(lo, c + 1)
            elif o == "Ge":
                lo = c if lo is None else max(lo, c)
            elif o == "Eq":
                lo = c if lo is None else max(lo, c)
                hi = c if hi is None else min(hi, c)
            elif o == "Ne":
                nes.add(c)
    # `x != c` at the end of the known range (`if lf < 0 {..} if lf == 0 {..}` gives lf >= 1, like the match arm `1..`)
    tr = INT_RANGE.get(D.key_ty(key))
    if nes and tr is not None:
        elo = lo if lo is not None else tr[0]
        ehi = hi if hi is not None else tr[1]
        changed = True
        while changed:
            changed = False
            if elo in nes:
                elo += 1
                lo = elo
                changed = True
            if ehi in nes:
                ehi -= 1
                hi = ehi
                changed = True
    return lo, hi


def guard_facts(D, fn, site_bb):
    """{name: [lo, hi]} with None for a bound that is only the type's; names are source names, so that the fact survives renumbering of MIR locals"""
    keys = set()
    for (bi, tt, ft, op, al, ac, bl, bc) in D._cmp_edges():
        for k in (al, bl):
            if k is not None:
                keys.add(k)
    out = {}
    for k in keys:
        nm = _name(fn, k)
        if nm is None:
            continue
        lo, hi = _edge_interval(D, k, site_bb)
        if lo is None and hi is None:
            continue
        ty = D.key_ty(k)
        tr = INT_RANGE.get(ty)
        if tr is not None:
            if lo is not None and lo <= tr[0]:
                lo = None
            if hi is not None and hi >= tr[1]:
                hi = None
        if lo is None and hi is None:
            continue
        if nm in out:
            # two keys with one name (shadowing): keep the weaker statement
            plo, phi = out[nm]
            lo = None if (lo is None or plo is None) else min(lo, plo)
            hi = None if (hi is None or phi is None) else max(hi, phi)
            if lo is None and hi is None:
                del out[nm]
                continue
        out[nm] = [lo, hi]
    return out


def _within(now, then):
    """interval `now` is contained in interval `then` (None = unbounded on that side)"""
    lo_ok = then[0] is None or (now[0] is not None and now[0] >= then[0])
    hi_ok = then[1] is None or (now[1] is not None and now[1] <= then[1])
    return lo_ok and hi_ok


def check_guards(recorded, now):
    """-> (ok, message). Every recorded guard must be present with the same or a tighter interval; a guard whose name is gone may be
    carried by exactly one other name with a fitting interval (a rename)."""
    free = {n: iv for n, iv in now.items() if n not in recorded}
    for name, then in sorted(recorded.items()):
        cur = now.get(name)
        if cur is not None:
            if _within(cur, then):
                continue
            return False, "the argument was made under the guard %s, which now only gives %s" % (fmt(name, then), fmt(name, cur))
        cands = [n for n, iv in free.items() if _within(iv, then)]
        if len(cands) == 1:
            free.pop(cands[0])
            continue
        return False, "the argument was made under the guard %s, which no longer dominates the site%s" % (
            fmt(name, then), (" (guards now: %s)" % ", ".join(fmt(n, iv) for n, iv in sorted(now.items()))) if now else "")
    return True, "%d recorded guard%s still dominate the site" % (len(recorded), "" if len(recorded) == 1 else "s")


def fmt(name, iv):
    lo, hi = iv
    if lo is not None and hi is not None:
        return "%d <= %s <= %d" % (lo, name, hi) if lo != hi else "%s == %d" % (name, lo)
    if lo is not None:
        return "%s >= %d" % (name, lo)
    return "%s <= %d" % (name, hi)
