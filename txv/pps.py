"""Potential-panic sites: enumerate (K1 explicit, K2 unwrap family, K3 assert
terminators, K4 curated panicking std calls) and discharge (const / guard /
type / size / audited).  See DESIGN §2.4."""
import json
import os
import re

from .cfg import Defs, dominators, find_path
from .dataflow import Flow, op_place, rv_operands
from .facts import callee_name, strip_generics

VERIF = os.path.dirname(os.path.dirname(os.path.abspath(__file__)))

PANIC_FNS = ("core::panicking::panic", "core::panicking::panic_fmt", "core::panicking::panic_display", "core::panicking::panic_explicit",
             "core::panicking::unreachable_display", "core::panicking::assert_failed", "core::panicking::panic_nounwind",
             "std::rt::panic_fmt", "std::rt::begin_panic", "std::panicking::begin_panic", "core::panicking::panic_str_2015",
             "core::panicking::assert_matches_failed", "core::panicking::panic_const", "core::option::unwrap_failed",
             "core::option::expect_failed", "core::result::unwrap_failed", "core::panicking::panic_bounds_check")

K2_FNS = {"core::option::Option::unwrap": "unwrap", "core::option::Option::expect": "expect",
          "core::result::Result::unwrap": "unwrap", "core::result::Result::expect": "expect",
          "core::result::Result::unwrap_err": "unwrap_err", "core::result::Result::expect_err": "expect_err"}

K4_PATTERNS = [
    (re.compile(r"^<(\[.*\]|str|alloc::vec::Vec|alloc::string::String|.*) as core::ops::index::Index(Mut)?>::index(_mut)?$"), "index"),
    (re.compile(r"^core::ops::index::Index(Mut)?::index(_mut)?$"), "index"),
    (re.compile(r"^alloc::vec::Vec::(remove|insert|swap_remove|drain|split_off|truncate_front)$"), "vec-op"),
    (re.compile(r"^core::slice::(<impl \[T\]>::)?(split_at|split_at_mut|copy_from_slice|clone_from_slice|swap|chunks|chunks_exact|windows|rotate_left|rotate_right)$"), "slice-op"),
    (re.compile(r"^core::str::(<impl str>::)?(split_at|split_at_mut)$"), "str-op"),
    (re.compile(r"^alloc::string::String::(insert|insert_str|remove|split_off|replace_range|drain)$"), "string-op"),
    (re.compile(r"^core::cell::RefCell::(borrow|borrow_mut)$"), "refcell"),
    (re.compile(r"^core::num::(<impl \w+>::)?(pow|abs|isqrt|ilog|ilog2|ilog10|div_euclid|rem_euclid|next_power_of_two)$"), "int-op"),
    (re.compile(r"^core::iter::traits::iterator::Iterator::(sum|product|step_by)$"), "iter-op"),
    (re.compile(r"^core::char::methods::(<impl char>::)?from_digit$|^core::char::from_digit$"), "from_digit"),
    (re.compile(r"^core::char::methods::(<impl char>::)?to_digit$"), "to_digit"),
    (re.compile(r"^std::time::.*::(duration_since|sub|add)$"), "time"),
]


class Site:
    __slots__ = ("fn", "kind", "what", "bb", "node", "loc", "key", "mac", "snip", "detail")

    def __init__(self, fn, kind, what, bb, node, detail=None):
        self.fn = fn
        self.kind = kind
        self.what = what
        self.bb = bb
        self.node = node
        self.loc = fn.loc(node)
        self.mac = (node.get("macs") or [None])[-1] if kind != "K3" else node.get("mac")
        self.snip = node.get("snip", "")
        self.detail = detail
        self.key = None

    def __repr__(self):
        return "<Site %s %s %s %s>" % (self.kind, self.what, self.fn.name, self.loc)


def enumerate_sites(fn, kinds=("K1", "K2", "K3", "K4")):
    sites = []
    for bi, b in enumerate(fn.blocks):
        if b.get("cleanup"):
            continue
        t = b["t"]
        if t["k"] == "call":
            c = t.get("callee")
            if not c:
                continue
            nm = strip_generics(c.get("rfn") or c["fn"])
            g = strip_generics(c["fn"])
            if "K1" in kinds and (nm in PANIC_FNS or g in PANIC_FNS or nm.startswith("core::panicking::panic_const")):
                macs = t.get("macs") or []
                mac = macs[-1] if macs else "panic"
                if mac in ("debug_assert", "debug_assert_eq", "debug_assert_ne"):
                    mac = mac
                sites.append(Site(fn, "K1", mac, bi, t))
                continue
            if "K2" in kinds and (g in K2_FNS or nm in K2_FNS):
                sites.append(Site(fn, "K2", K2_FNS.get(g) or K2_FNS.get(nm), bi, t))
                continue
            if "K4" in kinds:
                for rx, label in K4_PATTERNS:
                    if rx.match(nm) or rx.match(g):
                        # `index` on non-range index of Vec/slice is a BoundsCheck elsewhere; keep all
                        sites.append(Site(fn, "K4", label + ":" + (nm if len(nm) < 90 else g), bi, t))
                        break
        elif t["k"] == "assert" and "K3" in kinds:
            ak = t["ak"]
            if ak in ("Misaligned", "NullDeref", "InvalidEnum", "Other"):
                continue
            sites.append(Site(fn, "K3", ak, bi, t))
    # structural keys: (fn, kind, what, operand types / producer, ordinal)
    counts = {}
    defs = None
    for s in sites:
        extra = ""
        if s.kind == "K2":
            defs = defs or Defs(fn)
            prod = _producer(fn, defs, s.node["args"][0])
            extra = prod or ""
        elif s.kind == "K3":
            tys = []
            for o in s.node["ops"]:
                p = op_place(o)
                if p is not None:
                    tys.append(fn.local_ty(p["l"]) if not p["p"] else "proj")
                else:
                    tys.append(o.get("c", {}).get("ty", "?"))
            extra = ",".join(tys)
        base = "%s|%s|%s|%s" % (strip_generics(fn.name), s.kind, s.what, extra)
        n = counts.get(base, 0)
        counts[base] = n + 1
        s.key = "%s#%d" % (base, n)
    return sites


def _producer(fn, defs, op, depth=4):
    """name of the call that produced the unwrapped value"""
    p = op_place(op)
    for _ in range(depth):
        if p is None:
            return None
        d = defs.single(p["l"])
        if d is None:
            return None
        if d[0] == "call":
            return strip_generics(callee_name(d[3]) or "<ptr>")
        st = d[3]
        if st["k"] != "=":
            return None
        rv = st["rv"]
        if rv["k"] == "use":
            p = op_place(rv["op"])
            continue
        if rv["k"] == "agg":
            return "agg:%s" % rv.get("variant")
        return rv["k"]
    return None


# ------------------------------------------------------------------ discharge

def load_audited():
    p = os.path.join(VERIF, "tables", "pps_audited.json")
    if not os.path.exists(p):
        return {}
    return json.load(open(p))


def const_operand(o):
    c = o.get("c")
    if c and "int" in c:
        return c["int"]
    return None


INT_RANGE = {"u8": (0, 255), "u16": (0, 65535), "u32": (0, 2**32 - 1), "u64": (0, 2**64 - 1), "usize": (0, 2**64 - 1),
             "i8": (-128, 127), "i16": (-2**15, 2**15 - 1), "i32": (-2**31, 2**31 - 1), "i64": (-2**63, 2**63 - 1), "isize": (-2**63, 2**63 - 1),
             "u128": (0, 2**128 - 1), "i128": (-2**127, 2**127 - 1)}


def discharge_const(site):
    """K3 with constant operands that cannot fail."""
    if site.kind != "K3":
        return None
    ops = site.node["ops"]
    vals = [const_operand(o) for o in ops]
    ak = site.what
    if ak in ("Overflow:Div", "Overflow:Rem") and len(vals) == 2 and vals[1] is not None and vals[1] != -1:
        return "const: divisor %d is not -1" % vals[1]
    if any(v is None for v in vals):
        return None
    ty = ops[0].get("c", {}).get("ty")
    rng = INT_RANGE.get(ty)
    if ak.startswith("Overflow:") and rng:
        op = ak.split(":")[1]
        a, b = vals
        r = {"Add": a + b, "Sub": a - b, "Mul": a * b}.get(op)
        if op in ("Shl", "Shr"):
            bits = {"u8": 8, "i8": 8, "u16": 16, "i16": 16, "u32": 32, "i32": 32}.get(ty, 64)
            return "const" if 0 <= b < bits else None
        if r is not None and rng[0] <= r <= rng[1]:
            return "const"
    if ak in ("DivisionByZero", "RemainderByZero") and vals[0] != 0:
        return "const"
    if ak == "BoundsCheck" and vals[1] < vals[0]:
        return "const"
    return None


def wide_usize_sources(F, crates):
    """calls that can put an arbitrary 64-bit number into a usize / u64: str::parse / from_str / from_str_radix into a 64-bit type,
    and u64/u128/i64 -> usize casts.  The size rule trusts usize fields and arguments only if there are none."""
    out = []
    for fn in F.fns.values():
        if fn.crate not in crates or "::tests::" in fn.name:
            continue
        for bi, t in fn.calls():
            raw = callee_name(t) or ""
            if re.search(r"(parse::<|from_str_radix|FromStr>::from_str)", raw) and re.search(r"\b(usize|u64|u128|i64|i128|isize)\b", raw + " " + fn.local_ty(t["dest"]["l"])):
                out.append("%s: %s" % (fn.loc(t), raw[:60]))
        for b in fn.blocks:
            for st in b["s"]:
                if st["k"] == "=" and st["rv"]["k"] == "cast" and st["rv"].get("ck") == "IntToInt" and not st["lhs"]["p"] and fn.local_ty(st["lhs"]["l"]) == "usize":
                    q = op_place(st["rv"]["op"])
                    if q is not None and not q["p"] and fn.local_ty(q["l"]) in ("u64", "u128", "i64", "i128"):
                        # widening from a value that is itself derived from a narrow one is common (i64 arithmetic on i32s); keep the
                        # check simple: any such cast counts, except in functions whose name says xn_over_d (audited arithmetic)
                        out.append("%s: %s as usize" % (fn.loc(st), fn.local_ty(q["l"])))
    return out


_SPLIT_SUMMARY = {}


def _returns_head_of_split(g):
    """index k such that every Ok(..) returned by g wraps the first half of `split_at_checked(x, arg_k)`; None otherwise"""
    if g.id in _SPLIT_SUMMARY:
        return _SPLIT_SUMMARY[g.id]
    from .dataflow import Flow
    res = None
    try:
        defs = Defs(g)
        splits = [t for bi, t in g.calls() if strip_generics(callee_name(t) or "").endswith("split_at_checked") and len(t["args"]) == 2]
        if len(splits) == 1:
            t = splits[0]
            p = op_place(t["args"][1])
            k = None
            for _ in range(4):
                if p is None or p["p"]:
                    break
                if 1 <= p["l"] <= g.argc:
                    k = p["l"] - 1
                    break
                d = defs.single(p["l"])
                if d and d[0] == "st" and d[3]["k"] == "=" and d[3]["rv"]["k"] == "use":
                    p = op_place(d[3]["rv"]["op"])
                else:
                    break
            if k is not None:
                flow = Flow(g)
                oks = [st for b in g.blocks for st in b["s"] if st["k"] == "=" and st["lhs"]["l"] == 0 and not st["lhs"]["p"]
                       and st["rv"]["k"] == "agg" and st["rv"].get("variant") == "Ok"]
                if oks and all(any(kk == "call" and v and strip_generics(v).endswith("split_at_checked") for kk, v in flow.operand_origins(st["rv"]["ops"][0]))
                               and not any(kk == "call" and v and strip_generics(v).split("::")[-1] in ("index", "get", "split_at", "split_at_mut", "iter") for kk, v in flow.operand_origins(st["rv"]["ops"][0]))
                               for st in oks):
                    # the Ok payload must be the head (field .0 of the pair), not the tail
                    def is_head(o):
                        q = op_place(o)
                        for _ in range(6):
                            if q is None:
                                return False
                            if q["p"]:
                                fs = [e.get("f") for e in q["p"] if isinstance(e, dict) and "f" in e]
                                return bool(fs) and fs[-1] == 0
                            d = defs.single(q["l"])
                            if d and d[0] == "st" and d[3]["k"] == "=" and d[3]["rv"]["k"] == "use":
                                q = op_place(d[3]["rv"]["op"])
                            elif d and d[0] == "st" and d[3]["k"] == "=" and d[3]["rv"]["k"] == "ref" and d[3]["rv"]["pl"]["p"] == ["*"]:
                                q = {"l": d[3]["rv"]["pl"]["l"], "p": []}
                            else:
                                return False
                        return False
                    if all(is_head(st["rv"]["ops"][0]) for st in oks):
                        res = k
    except Exception:
        res = None
    _SPLIT_SUMMARY[g.id] = res
    return res


class Discharger:
    """Per-function context for guard/type/size rules."""

    def __init__(self, F, fn):
        self.F = F
        self.fn = fn
        self._dom = None
        self._defs = None
        self._flow = None

    @property
    def dom(self):
        if self._dom is None:
            self._dom = dominators(self.fn)
        return self._dom

    @property
    def defs(self):
        if self._defs is None:
            self._defs = Defs(self.fn)
        return self._defs

    @property
    def flow(self):
        if self._flow is None:
            self._flow = Flow(self.fn)
        return self._flow

    def local_def(self, l):
        return self.defs.single(l)

    def src_local(self, op, depth=6):
        """follow copies/moves to the originating local"""
        p = op_place(op)
        for _ in range(depth):
            if p is None or p["p"]:
                return p
            d = self.defs.single(p["l"])
            if d is None or d[0] != "st" or d[3]["k"] != "=" or d[3]["rv"]["k"] != "use":
                return p
            q = op_place(d[3]["rv"]["op"])
            if q is None or q["p"]:
                return p
            p = q
        return p

    def _stable_bases(self):
        """locals whose fields cannot change between two reads: never stored to through a projection, never mutably borrowed
        (with a projection or as a whole), defined at most once"""
        if hasattr(self, "_sb"):
            return self._sb
        fn = self.fn
        bad = set()
        ndefs = {}
        for b in fn.blocks:
            for st in b["s"]:
                if st["k"] != "=":
                    continue
                l = st["lhs"]["l"]
                if st["lhs"]["p"]:
                    bad.add(l)
                else:
                    ndefs[l] = ndefs.get(l, 0) + 1
                rv = st["rv"]
                if rv["k"] in ("ref", "rawptr") and (rv.get("mut") or rv["k"] == "rawptr"):
                    bad.add(rv["pl"]["l"])
            t = b["t"]
            if t["k"] == "call" and isinstance(t.get("dest"), dict):
                l = t["dest"]["l"]
                if t["dest"]["p"]:
                    bad.add(l)
                else:
                    ndefs[l] = ndefs.get(l, 0) + 1
        # an argument is defined on entry: any further assignment makes it a two-definition local
        self._sb = {l for l in range(len(fn.locals)) if l not in bad and ndefs.get(l, 0) <= (0 if 1 <= l <= fn.argc else 1)}
        return self._sb

    def vkey(self, op):
        """a key that identifies the value read by `op` across statements: the originating local, or — for a field read of a
        stable base — the place itself, so that two separate reads of `v.left.0` are recognised as the same value"""
        p = self.src_local(op)
        if p is None:
            return None
        if p["p"]:
            q = p
        else:
            d = self.defs.single(p["l"])
            q = None
            if d is not None and d[0] == "call" and strip_generics(callee_name(d[3]) or "").split("::")[-1] == "len" and len(d[3]["args"]) == 1:
                lk = self._len_key(d[3]["args"][0])
                if lk is not None:
                    return lk
            if d is not None and d[0] == "st" and d[3]["k"] == "=" and (d[3]["rv"]["k"] in ("len", "ptrmeta") or (d[3]["rv"]["k"] == "un" and d[3]["rv"].get("op") == "PtrMetadata")):
                src = d[3]["rv"].get("pl") or op_place(d[3]["rv"].get("a") or {})
                if src is not None:
                    lk = self._len_key({"cp": src})
                    if lk is not None:
                        return lk
            if d is not None and d[0] == "st" and d[3]["k"] == "=" and d[3]["rv"]["k"] == "use":
                q = op_place(d[3]["rv"]["op"])
            if q is None or not q["p"]:
                return p["l"]
        # q is a projected place: fields only (no index, at most leading derefs of a shared reference)
        if q["l"] not in self._stable_bases():
            return p["l"] if not p["p"] else None
        path = []
        for e in q["p"]:
            if e == "*":
                ty = self.fn.local_ty(q["l"])
                if path or not ty.startswith("&") or ty.startswith("&mut "):
                    return p["l"] if not p["p"] else None
                path.append("*")
            elif isinstance(e, dict) and "f" in e:
                path.append(e["f"])
            elif isinstance(e, dict) and "v" in e:
                path.append(("v", e["v"]))
            else:
                return p["l"] if not p["p"] else None
        last = q["p"][-1]
        self._key_ty = getattr(self, "_key_ty", {})
        k = ("P", q["l"], tuple(path))
        if isinstance(last, dict) and last.get("t"):
            self._key_ty[k] = last["t"]
        elif last == "*":
            self._key_ty[k] = self.fn.local_ty(q["l"])[1:].strip()
        return k

    def _canon(self, k):
        """keys recorded by _cmp_edges are vkeys; accept a plain local and map it to the key of the value it holds"""
        if isinstance(k, int):
            kk = self.vkey({"cp": {"l": k, "p": []}})
            return kk if kk is not None else k
        return k

    def _len_key(self, ref_op):
        """key for `len` of the container a reference operand points to, when that container cannot change within the function"""
        p = op_place(ref_op)
        for _ in range(6):
            if p is None:
                return None
            fields = [e for e in p["p"] if e != "*"]
            if fields:
                if p["l"] not in self._stable_bases() or not all(isinstance(e, dict) and "f" in e for e in fields):
                    return None
                k = ("L", p["l"], tuple(e["f"] for e in fields))
                self._key_ty = getattr(self, "_key_ty", {})
                self._key_ty[k] = "usize"
                return k
            d = self.defs.single(p["l"])
            if d is None:
                # an argument or a multiply-defined local: the container itself
                if 1 <= p["l"] <= self.fn.argc and p["l"] in self._stable_bases() and not self.fn.local_ty(p["l"]).startswith("&mut"):
                    k = ("L", p["l"], ())
                    self._key_ty = getattr(self, "_key_ty", {})
                    self._key_ty[k] = "usize"
                    return k
                return None
            if d[0] == "st" and d[3]["k"] == "=":
                rv = d[3]["rv"]
                if rv["k"] in ("use", "cast"):
                    p = op_place(rv["op"])
                    continue
                if rv["k"] == "ref" and not rv.get("mut"):
                    p = rv["pl"]
                    if not [e for e in p["p"] if e != "*"]:
                        p = {"l": p["l"], "p": []}
                    continue
            if d[0] == "call" and strip_generics(callee_name(d[3]) or "").split("::")[-1] in ("deref", "as_slice", "as_ref", "borrow", "as_str", "as_bytes") and d[3]["args"]:
                p = op_place(d[3]["args"][0])
                continue
            if p["l"] in self._stable_bases() and not self.fn.local_ty(p["l"]).startswith("&mut"):
                k = ("L", p["l"], ())
                self._key_ty = getattr(self, "_key_ty", {})
                self._key_ty[k] = "usize"
                return k
            return None
        return None

    def key_ty(self, k):
        if isinstance(k, tuple):
            return getattr(self, "_key_ty", {}).get(k)
        return self.fn.local_ty(k)

    def eval_const(self, op, depth=8):
        """integer value of an operand if it folds from literals through copies,
        arithmetic and `.0` of checked arithmetic; else None"""
        c = const_operand(op)
        if c is not None:
            return c
        p = op_place(op)
        if p is None or depth <= 0:
            return None
        proj = p["p"]
        d = self.defs.single(p["l"])
        if d is not None and d[0] == "call" and not proj:
            # `array.len()` of a fixed-size array
            n = strip_generics(callee_name(d[3]) or "")
            if n.endswith("::len") and d[3]["args"]:
                rp = self.defs.resolve_place(d[3]["args"][0])
                if rp is not None and not rp["p"]:
                    m = re.match(r"^\[.*; (\d+)\]$", self.fn.local_ty(rp["l"]))
                    if m:
                        return int(m.group(1))
                # through an unsizing cast of `&array`
                q = op_place(d[3]["args"][0])
                dd = self.defs.single(q["l"]) if q is not None and not q["p"] else None
                if dd and dd[0] == "st" and dd[3]["k"] == "=" and dd[3]["rv"]["k"] == "cast" and dd[3]["rv"]["ck"].startswith("Unsize"):
                    rp = self.defs.resolve_place(dd[3]["rv"]["op"])
                    if rp is not None:
                        ty = self.fn.local_ty(rp["l"]) if (not rp["p"] or rp["p"] == ["*"]) else ""
                        m = re.match(r"^&?(mut )?\[.*; (\d+)\]$", ty)
                        if m:
                            return int(m.group(2))
            return None
        if d is None or d[0] != "st" or d[3]["k"] != "=":
            return None
        rv = d[3]["rv"]
        if not proj:
            if rv["k"] == "use":
                return self.eval_const(rv["op"], depth - 1)
            if rv["k"] == "bin" and not rv["op"].endswith("WithOverflow"):
                return self._fold(rv["op"], self.eval_const(rv["a"], depth - 1), self.eval_const(rv["b"], depth - 1))
            if rv["k"] == "cast" and rv["ck"] == "IntToInt":
                v = self.eval_const(rv["op"], depth - 1)
                rng = INT_RANGE.get(rv["ty"])
                if v is not None and rng and rng[0] <= v <= rng[1]:
                    return v
            if rv["k"] == "un" and rv["op"] == "Neg":
                v = self.eval_const(rv["a"], depth - 1)
                return -v if v is not None else None
            return None
        if len(proj) == 1 and isinstance(proj[0], dict) and proj[0].get("f") == 0 and rv["k"] == "bin" and rv["op"].endswith("WithOverflow"):
            return self._fold(rv["op"].replace("WithOverflow", ""), self.eval_const(rv["a"], depth - 1), self.eval_const(rv["b"], depth - 1))
        return None

    @staticmethod
    def _fold(op, a, b):
        if a is None or b is None:
            return None
        try:
            return {"Add": a + b, "Sub": a - b, "Mul": a * b, "Shl": a << b if 0 <= b < 128 else None, "Shr": a >> b if 0 <= b < 128 else None,
                    "BitAnd": a & b, "BitOr": a | b, "BitXor": a ^ b}.get(op)
        except Exception:
            return None

    def folded_const_rule(self, site):
        """K3 whose operands fold to constants through local arithmetic; K4 pow with constant arguments"""
        if site.kind == "K3":
            vals = [self.eval_const(o) for o in site.node["ops"]]
            if any(v is None for v in vals):
                return None
            ak = site.what
            tyop = site.node["ops"][0]
            p = op_place(tyop)
            ty = self.fn.local_ty(p["l"]) if p is not None and not p["p"] else tyop.get("c", {}).get("ty")
            rng = INT_RANGE.get(ty)
            if ak.startswith("Overflow:") and rng and len(vals) == 2:
                r = self._fold(ak.split(":")[1], vals[0], vals[1])
                if r is not None and rng[0] <= r <= rng[1]:
                    return "const: operands fold to %s, result %d fits %s" % (vals, r, ty)
            if ak == "OverflowNeg" and rng and -vals[0] <= rng[1]:
                return "const: negation of the constant %d" % vals[0]
            if ak == "BoundsCheck" and 0 <= vals[1] < vals[0]:
                return "const: index %d < length %d" % (vals[1], vals[0])
        if site.kind == "K4" and site.what.startswith("index:") and len(site.node.get("args") or []) == 2:
            # `array[..c]`, `array[a..b]`, `array[a..]` on a fixed-size array with constant bounds
            p0 = op_place(site.node["args"][0])
            ty0 = self.fn.local_ty(p0["l"]) if p0 is not None and not p0["p"] else ""
            m = re.match(r"^&(?:mut )?\[.*; (\d+)\]$", ty0)
            rp = op_place(site.node["args"][1])
            rd = self.defs.single(rp["l"]) if rp is not None and not rp["p"] else None
            if m and rd and rd[0] == "st" and rd[3]["k"] == "=" and rd[3]["rv"]["k"] == "agg" and rd[3]["rv"].get("ak") == "adt":
                n_arr = int(m.group(1))
                adt = rd[3]["rv"]["adt"].split("::")[-1]
                vals = [self.eval_const(o) for o in rd[3]["rv"]["ops"]]
                if all(v is not None for v in vals):
                    if (adt == "RangeTo" and 0 <= vals[0] <= n_arr) or (adt == "RangeFrom" and 0 <= vals[0] <= n_arr) \
                            or (adt == "Range" and len(vals) == 2 and 0 <= vals[0] <= vals[1] <= n_arr):
                        return "const: constant range %s within the array length %d" % (vals, n_arr)
        if site.kind == "K4" and site.what.startswith("index:") and len(site.node.get("args") or []) == 2:
            # `v[..c]` / `v[a..b]` with constants, under a dominating lower bound on v.len()
            rp = op_place(site.node["args"][1])
            rd = self.defs.single(rp["l"]) if rp is not None and not rp["p"] else None
            if rd and rd[0] == "st" and rd[3]["k"] == "=" and rd[3]["rv"]["k"] == "agg" and rd[3]["rv"].get("ak") == "adt":
                adt = rd[3]["rv"]["adt"].split("::")[-1]
                vals = [self.eval_const(o) for o in rd[3]["rv"]["ops"]]
                if adt in ("RangeTo", "Range", "RangeFrom") and all(v is not None for v in vals):
                    need = vals[-1] if adt != "RangeFrom" else vals[0]
                    okr = adt != "Range" or (len(vals) == 2 and 0 <= vals[0] <= vals[1])
                    lk = self._len_key(site.node["args"][0])
                    if lk is not None and okr:
                        llo, _ = self.range_of(lk, site.bb)
                        if llo is not None and need <= llo:
                            return "guard: constant range end %d within the length's lower bound %d" % (need, llo)
        if site.kind == "K4" and site.what.startswith("to_digit:"):
            args = site.node["args"]
            if len(args) == 2:
                r = self.eval_const(args[1])
                if r is not None and 2 <= r <= 36:
                    return "const: radix %d is within 2..=36" % r
        if site.kind == "K4" and site.what.startswith("int-op:") and site.what.endswith("::pow|") is False and "::pow" in site.what:
            args = site.node["args"]
            if len(args) == 2:
                a, b = self.eval_const(args[0]), self.eval_const(args[1])
                p = op_place(site.node["dest"])
                ty = self.fn.local_ty(site.node["dest"]["l"])
                rng = INT_RANGE.get(ty)
                if a is not None and b is not None and rng and 0 <= b < 200 and rng[0] <= a ** b <= rng[1]:
                    return "const: %d.pow(%d) fits %s" % (a, b, ty)
        return None

    def split_checked_rule(self, site):
        """`<[u8; N]>::try_from(head).unwrap()` where head is the first half of `split_at_checked(N)` on its Some arm"""
        if site.kind != "K2":
            return None
        call = self._producer_call(site.node["args"][0])
        if call is None:
            return None
        n = strip_generics(callee_name(call) or "")
        if not (n.endswith("try_into") or n.endswith("try_from")):
            return None
        arg_ty = self.fn.local_ty(op_place(site.node["args"][0])["l"])
        m = re.match(r"core::result::Result<\[\w+; (\w+)\], core::array::TryFromSliceError>", arg_ty)
        if not m:
            return None
        want = m.group(1)
        og = self.flow.operand_origins(call["args"][0])
        if not any(k == "call" and v and strip_generics(v).endswith("split_at_checked") for k, v in og):
            return self._split_helper(call["args"][0], want, site)
        for bi, t in self.fn.calls():
            if strip_generics(callee_name(t) or "").endswith("split_at_checked"):
                a = t["args"][1]
                txt = a.get("c", {}).get("text", "")
                val = const_operand(a)
                if (txt == want or txt == "const %s" % want or (val is not None and str(val) == want)) and bi in self.dom.get(site.bb, ()):
                    return "guard: slice is the head of split_at_checked(%s) on its Some arm, so it has exactly %s elements" % (want, want)
        return None

    def _split_helper(self, op, want, site):
        """the slice comes from `self.take(N)?` where the helper returns the head of `split_at_checked(n)` for its argument n"""
        fn = self.fn
        p = op_place(op)
        call = None
        for _ in range(10):
            if p is None:
                return None
            d = self.defs.single(p["l"])
            if d is None:
                return None
            if d[0] == "call":
                n = strip_generics(callee_name(d[3]) or "").split("::")[-1]
                if n in ("branch", "unwrap", "expect") and d[3]["args"]:
                    p = op_place(d[3]["args"][0])
                    continue
                call = d[3]
                break
            rv = d[3].get("rv", {})
            if rv.get("k") == "use":
                p = op_place(rv["op"])
            elif rv.get("k") == "ref" and rv["pl"]["p"] == ["*"]:
                p = {"l": rv["pl"]["l"], "p": []}
            else:
                return None
        if call is None:
            return None
        c = call.get("callee") or {}
        g = self.F.fns.get(c.get("rid")) or self.F.fns.get(c.get("id"))
        if g is None:
            return None
        k = _returns_head_of_split(g)
        if k is None or k >= len(call["args"]):
            return None
        a = call["args"][k]
        txt = a.get("c", {}).get("text", "")
        val = const_operand(a)
        if txt == want or txt == "const %s" % want or (val is not None and str(val) == want):
            return "guard: slice is returned by %s(%s), which hands back the head of split_at_checked(n) for that argument" % (g.name.split("::")[-1], want)
        return None

    # ---- rules -----------------------------------------------------
    def cond_rule(self, site):
        """the assert condition itself folds to the passing value (e.g. `Eq(10, 0)` for a constant divisor)"""
        if site.kind != "K3":
            return None
        t = site.node
        p = op_place(t["cond"])
        if p is None or p["p"]:
            return None
        d = self.defs.single(p["l"])
        if not d or d[0] != "st" or d[3]["k"] != "=":
            return None
        rv = d[3]["rv"]
        if rv["k"] == "bin" and rv["op"] in ("Eq", "Ne", "Lt", "Le", "Gt", "Ge"):
            a, b = const_operand(rv["a"]), const_operand(rv["b"])
            if a is not None and b is not None:
                r = {"Eq": a == b, "Ne": a != b, "Lt": a < b, "Le": a <= b, "Gt": a > b, "Ge": a >= b}[rv["op"]]
                if bool(r) == bool(t["exp"]):
                    return "const: assert condition %s(%d, %d) always passes" % (rv["op"], a, b)
            # division by a non-constant divisor: find the divisor local for the guard rule
        return None

    def divisor_of(self, site):
        """for DivisionByZero/RemainderByZero: the divisor operand (from the `Eq(divisor, 0)` condition)"""
        p = op_place(site.node["cond"])
        if p is None or p["p"]:
            return None
        d = self.defs.single(p["l"])
        if d and d[0] == "st" and d[3]["k"] == "=" and d[3]["rv"]["k"] == "bin" and d[3]["rv"]["op"] == "Eq":
            return d[3]["rv"]["a"]
        return None

    def type_rule(self, site):
        fn = self.fn
        if site.kind == "K2":
            prod = _producer(fn, self.defs, site.node["args"][0])
            arg_ty = fn.local_ty(op_place(site.node["args"][0])["l"]) if op_place(site.node["args"][0]) else ""
            # infallible widening try_into / try_from
            if prod and (prod.endswith("TryInto>::try_into") or prod.endswith("TryFrom>::try_from") or prod.endswith("TryInto::try_into") or prod.endswith("TryFrom::try_from")):
                m = re.match(r"core::result::Result<(\w+), core::num::error::TryFromIntError>", arg_ty) or re.match(r"core::result::Result<(\w+), core::convert::Infallible>", arg_ty)
                if "core::convert::Infallible" in arg_ty:
                    return "type: infallible conversion (%s)" % arg_ty
                if m:
                    dst = m.group(1)
                    srct = self._conv_source_ty(site)
                    if srct in INT_RANGE and dst in INT_RANGE:
                        s, d = INT_RANGE[srct], INT_RANGE[dst]
                        if d[0] <= s[0] and s[1] <= d[1]:
                            return "type: %s -> %s cannot fail" % (srct, dst)
            if prod and prod.endswith("NonZero::new"):
                pass
        if site.kind == "K3" and site.what == "BoundsCheck":
            # index is an enum discriminant cast and the array is long enough
            ln, ix = site.node["ops"]
            lv = const_operand(ln)
            p = self.src_local(ix)
            if lv is not None and p is not None and not p["p"]:
                d = self.defs.single(p["l"])
                if d and d[0] == "st" and d[3]["rv"]["k"] == "cast" and d[3]["rv"]["ck"] == "IntToInt":
                    q = self.src_local(d[3]["rv"]["op"])
                    if q is not None and not q["p"]:
                        d2 = self.defs.single(q["l"])
                        if d2 and d2[0] == "st" and d2[3]["rv"]["k"] == "discr":
                            vs = self.F.enum_variants(d2[3]["rv"]["ty"]) or []
                            if vs and max(v[1] for v in vs) < lv:
                                return "type: index is a discriminant of %s (max %d) into an array of %d" % (strip_generics(d2[3]["rv"]["ty"]), max(v[1] for v in vs), lv)
                    # u8 index into array of >=256
                    qty = fn.local_ty(q["l"]) if q is not None and not q["p"] else None
                    if qty == "u8" and lv >= 256:
                        return "type: u8 index into an array of %d" % lv
        return None

    def _conv_source_ty(self, site):
        p = op_place(site.node["args"][0])
        d = self.defs.single(p["l"]) if p else None
        for _ in range(4):
            if d is None:
                return None
            if d[0] == "call":
                a0 = d[3]["args"][0]
                q = op_place(a0)
                if q is not None and not q["p"]:
                    return self.fn.local_ty(q["l"])
                if "c" in a0:
                    return a0["c"]["ty"]
                return None
            rv = d[3]["rv"]
            if rv["k"] == "use":
                q = op_place(rv["op"])
                d = self.defs.single(q["l"]) if q and not q["p"] else None
            else:
                return None
        return None

    def widened_rule(self, site):
        """Shift by a constant smaller than the width; Add/Sub/Mul whose operands were both widened from integer types
        so narrow that the exact result fits the operation's type."""
        if site.kind != "K3" or not site.what.startswith("Overflow:"):
            return None
        op = site.what.split(":")[1]
        fn = self.fn
        ops = site.node["ops"]
        if len(ops) != 2:
            return None

        def ty_of(o):
            p = op_place(o)
            return fn.local_ty(p["l"]) if p is not None and not p["p"] else o.get("c", {}).get("ty")
        ty = ty_of(ops[0])
        bits = {"u8": 8, "i8": 8, "u16": 16, "i16": 16, "u32": 32, "i32": 32, "u64": 64, "i64": 64, "usize": 64, "isize": 64, "u128": 128, "i128": 128}.get(ty)
        if op in ("Shl", "Shr"):
            amt = self.eval_const(ops[1])
            if bits and amt is not None and 0 <= amt < bits:
                return "const: shift amount %d < %d bits" % (amt, bits)
            return None
        if op not in ("Add", "Sub", "Mul") or ty not in INT_RANGE:
            return None

        def src_range(o):
            c = self.eval_const(o)
            if c is not None:
                return (c, c)
            p = op_place(o)
            if p is None or p["p"]:
                return None
            d = self.defs.single(p["l"])
            if d and d[0] == "st" and d[3]["k"] == "=" and d[3]["rv"]["k"] == "cast" and d[3]["rv"].get("ck") == "IntToInt":
                q = op_place(d[3]["rv"]["op"])
                if q is not None:
                    sty = fn.local_ty(q["l"]) if not q["p"] else None
                    if sty is None:
                        # a field such as `v.0`: follow one more definition
                        return None
                    s, dd = INT_RANGE.get(sty) or ((0, 0x10FFFF) if sty == "char" else None), INT_RANGE[ty]
                    if s and dd[0] <= s[0] and s[1] <= dd[1]:
                        return s
            if d and d[0] == "st" and d[3]["k"] == "=" and d[3]["rv"]["k"] == "use":
                q = op_place(d[3]["rv"]["op"])
                if q is not None and len(q["p"]) == 1 and isinstance(q["p"][0], dict) and q["p"][0].get("f") == 0 and depth[0] > 0:
                    # `.0` of a checked-arithmetic pair: interval of the exact result
                    dd = self.defs.single(q["l"])
                    if dd and dd[0] == "st" and dd[3]["k"] == "=" and dd[3]["rv"]["k"] == "bin" and dd[3]["rv"]["op"].endswith("WithOverflow"):
                        depth[0] -= 1
                        bop = dd[3]["rv"]["op"].replace("WithOverflow", "")
                        xa, xb = src_range(dd[3]["rv"]["a"]), src_range(dd[3]["rv"]["b"])
                        if xa and xb and bop in ("Add", "Sub", "Mul"):
                            c = [self._fold(bop, x, y) for x in xa for y in xb]
                            return (min(c), max(c))
                        return None
                return src_range(d[3]["rv"]["op"])
            return None
        depth = [4]
        ra, rb = src_range(ops[0]), src_range(ops[1])
        if ra is None or rb is None:
            return None
        cands = [self._fold(op, x, y) for x in ra for y in rb]
        if any(c is None for c in cands):
            return None
        lo, hi = min(cands), max(cands)
        if INT_RANGE[ty][0] <= lo and hi <= INT_RANGE[ty][1]:
            return "type: operands widened from %s and %s, exact result in [%d, %d] fits %s" % (ra, rb, lo, hi, ty)
        return None

    WIDE_USIZE_SOURCES = []   # filled by wide_usize_sources(F): places where a usize may hold an arbitrary 64-bit number

    SIZEY_CALLS = ("len", "len_utf8", "count", "capacity", "to_usize", "into_usize", "position", "find", "rfind", "size_hint", "min", "max",
                   "saturating_sub", "as_usize", "leading_zeros", "trailing_zeros", "count_ones")

    def _sizey(self, op, depth=5, seen=None):
        """the operand is a size-like usize on every definition: a small constant, a widening cast of a narrow unsigned integer, a
        length / index producing call, the counter of an Enumerate, a usize argument or field, or a sum of such values"""
        c = self.eval_const(op)
        if c is not None:
            return 0 <= c <= (1 << 32)
        p = op_place(op)
        if p is None or depth == 0:
            return False
        if p["p"]:
            last = p["p"][-1]
            if isinstance(last, dict) and "f" in last and last.get("t") == "usize":
                # a usize field; the counter of `enumerate()` arrives as field 0 of the Some payload.  Trusted only while the
                # workspace has no wide parse into usize (checked per run: Discharger.WIDE_USIZE_SOURCES)
                return not Discharger.WIDE_USIZE_SOURCES
            return False
        seen = seen or set()
        if p["l"] in seen:
            return True
        seen = seen | {p["l"]}
        if self.fn.local_ty(p["l"]) != "usize":
            return False
        dl = self.defs.defs.get(p["l"], [])
        if not dl:
            return 1 <= p["l"] <= self.fn.argc and not Discharger.WIDE_USIZE_SOURCES
        for d in dl:
            if d[0] == "call":
                n = strip_generics(callee_name(d[3]) or "").split("::")[-1]
                if n not in self.SIZEY_CALLS:
                    return False
                continue
            rv = d[3].get("rv", {})
            k = rv.get("k")
            if k == "use":
                if not self._sizey(rv["op"], depth - 1, seen):
                    return False
            elif k == "cast" and rv.get("ck") == "IntToInt":
                q = op_place(rv["op"])
                sty = self.fn.local_ty(q["l"]) if q is not None and not q["p"] else (q["p"][-1].get("t") if q is not None and isinstance(q["p"][-1], dict) else None)
                if sty not in ("u8", "u16", "u32", "char", "bool"):
                    return False
            elif k == "bin" and rv["op"].replace("WithOverflow", "") in ("Add", "Mul", "Sub", "Div", "Rem", "BitAnd", "Shr"):
                if not (self._sizey(rv["a"], depth - 1, seen) and self._sizey(rv["b"], depth - 1, seen)):
                    return False
            elif k in ("len", "ptrmeta") or (k == "un" and rv.get("op") == "PtrMetadata"):
                continue
            else:
                return False
        return True

    def counter_rule(self, site):
        """`n += c` / `n -= c` on a 64-bit (or wider) local that starts from a small constant and is only ever changed by small
        constant steps: overflow needs about 2^55 executions of the statement, which no run performs"""
        if site.kind != "K3" or site.what.split(":")[0] != "Overflow" or site.what.split(":")[1] not in ("Add", "Sub"):
            return None
        a, b = site.node["ops"]
        cb = const_operand(b)
        p = op_place(a)
        if cb is None or abs(cb) > 256 or p is None or p["p"]:
            return None
        # the operand is (a copy of) the counter variable
        src = self.src_local(a)
        if src is None or src["p"]:
            return None
        var = src["l"]
        ty = self.fn.local_ty(var)
        if ty not in ("i64", "u64", "i128", "u128", "usize", "isize"):
            return None
        if 1 <= var <= self.fn.argc:
            return None
        for d in self.defs.defs.get(var, []):
            if d[0] != "st" or d[3]["k"] != "=" or d[3]["lhs"]["p"]:
                return None
            rv = d[3]["rv"]
            if rv["k"] == "use":
                c = const_operand(rv["op"])
                if c is not None and abs(c) <= (1 << 32):
                    continue
                # `n = move (_t.0)` where _t = n +/- small const
                q = op_place(rv["op"])
                if q is not None and len(q["p"]) == 1 and isinstance(q["p"][0], dict) and q["p"][0].get("f") == 0:
                    dd = self.defs.single(q["l"])
                    if dd and dd[0] == "st" and dd[3]["rv"]["k"] == "bin" and dd[3]["rv"]["op"] in ("AddWithOverflow", "SubWithOverflow"):
                        x, y = dd[3]["rv"]["a"], dd[3]["rv"]["b"]
                        sx = self.src_local(x)
                        cy = const_operand(y)
                        if sx is not None and not sx["p"] and sx["l"] == var and cy is not None and abs(cy) <= 256:
                            continue
                return None
            return None
        if ty in ("u64", "u128", "usize") and site.what.split(":")[1] == "Sub":
            return None  # an unsigned counter can underflow after one step
        return "counter: %s starts from a small constant and moves by steps of at most 256; overflow needs > 2^54 executions" % (self.fn.local_name(var) or "_%d" % var)

    def size_rule(self, site):
        """Add/Mul on usize values that are lengths / indices / len_utf8."""
        if site.kind != "K3" or not site.what.startswith("Overflow:"):
            return None
        op = site.what.split(":")[1]
        if op not in ("Add", "Mul"):
            return None
        if op == "Add" and all(self._sizey(o) for o in site.node["ops"]):
            return "size: usize sum of lengths / indices / widened narrow integers (cannot exceed isize::MAX)"
        fn = self.fn
        tys = []
        for o in site.node["ops"]:
            p = op_place(o)
            if p is not None and p["p"]:
                last = p["p"][-1]
                tys.append(last.get("t") if isinstance(last, dict) and "f" in last else None)
            else:
                tys.append(fn.local_ty(p["l"]) if p is not None else o.get("c", {}).get("ty"))
        if not all(t == "usize" for t in tys):
            return None
        SIZEY = ("len", "len_utf8", "count", "capacity", "to_usize", "into_usize", "position", "find", "enumerate", "next", "size_hint", "min", "max",
                 "saturating_sub", "char_indices", "as_usize")
        for o in site.node["ops"]:
            c = const_operand(o)
            if c is not None:
                if c > 1 << 20:
                    return None
                continue
            og = self.flow.operand_origins(o)
            calls = {strip_generics(v).split("::")[-1] for k, v in og if k == "call" and v}
            consts = [v for k, v in og if k == "const" and isinstance(v, int)]
            if not calls and not consts and not any(k == "field" for k, v in og) and not any(k == "arg" for k, v in og):
                return None
            if any(isinstance(v, int) and v > 1 << 32 for v in consts):
                return None
            # allow: values built from lengths, indices, fields of usize type, small constants
            bad = {c for c in calls if c not in SIZEY and not c.startswith("len")}
            # casts from wider ints are not "sizes"
            if any(k == "call" and v and ("parse" in v or "from_str" in v) for k, v in og):
                return None
            if bad - {"into_iter", "iter", "chars", "into", "from", "unwrap", "unwrap_or", "clone", "deref", "as_ref", "borrow", "get", "index", "branch", "try_into"}:
                return None
        return "size: usize arithmetic on lengths/indices (cannot exceed isize::MAX)"

    def guard_rule(self, site):
        fn = self.fn
        # (a) subtraction / add guarded by a dominating comparison in a match-range arm or if
        if site.kind == "K3" and site.what.startswith("Overflow:"):
            op = site.what.split(":")[1]
            a, b = site.node["ops"]
            ca, cb = const_operand(a), const_operand(b)
            ka = self.vkey(a)
            # x - C guarded by dominating `x >= C'` (C' >= C) on the true edge; x + C guarded by `x <= C'` / `x < C'`
            if ka is not None and cb is not None:
                ty = self.key_ty(ka)
                rng = INT_RANGE.get(ty)
                lo, hi = self.range_of(ka, site.bb)
                if rng:
                    if op == "Sub" and lo is not None and lo - cb >= rng[0]:
                        return "guard: dominating comparison gives %s >= %d" % (self._nm(ka), lo)
                    if op == "Add" and hi is not None and hi + cb <= rng[1]:
                        return "guard: dominating comparison gives %s <= %d" % (self._nm(ka), hi)
                    if op == "Mul" and hi is not None and lo is not None and rng[0] <= lo * cb and hi * cb <= rng[1]:
                        return "guard: dominating comparisons bound %s in [%d,%d]" % (self._nm(ka), lo, hi)
            kb = self.vkey(b)
            if ca is not None and kb is not None and op in ("Add", "Mul"):
                ty = self.key_ty(kb)
                rng = INT_RANGE.get(ty)
                lo, hi = self.range_of(kb, site.bb)
                if rng and hi is not None and lo is not None:
                    r = (ca + hi) if op == "Add" else max(ca * hi, ca * lo)
                    if rng[0] <= r <= rng[1]:
                        return "guard: dominating comparisons bound %s in [%d,%d]" % (self._nm(kb), lo, hi)
            # x - y guarded by dominating `x >= y` / `y <= x`
            if ka is not None and kb is not None and op == "Sub":
                if self.dominating_cmp(ka, kb, site.bb):
                    return "guard: dominated by %s >= %s" % (self._nm(ka), self._nm(kb))
        if site.kind == "K3" and site.what == "OverflowNeg":
            pass
        if site.kind == "K3" and site.what in ("DivisionByZero", "RemainderByZero"):
            dv = self.divisor_of(site)
            p = self.src_local(dv) if dv is not None else None
            if p is not None and not p["p"]:
                lo, hi = self.range_of(p["l"], site.bb)
                if (lo is not None and lo > 0) or (hi is not None and hi < 0):
                    return "guard: divisor bounded away from zero"
                if self.ne_zero_guard(p["l"], site.bb):
                    return "guard: dominated by a non-zero test of the divisor"
        if site.kind == "K3" and site.what == "BoundsCheck":
            ln, ix = site.node["ops"]
            r = self._range_iter_index(ln, ix)
            if r:
                return r
            lv = const_operand(ln)
            ic = self.eval_const(ix)
            lk = self.vkey(ln)
            if ic is not None and lk is not None:
                llo, lhi = self.range_of(lk, site.bb)
                if llo is not None and ic < llo:
                    return "guard: constant index %d below the length's lower bound %d" % (ic, llo)
            p = self.src_local(ix)
            if p is not None and not p["p"]:
                lo, hi = self.range_of(p["l"], site.bb)
                if lv is not None and hi is not None and hi < lv:
                    return "guard: index <= %d < %d" % (hi, lv)
                # index < len(x) guard with the same len
                pl = self.src_local(ln)
                if pl is not None and not pl["p"] and self.dominating_lt(p["l"], pl["l"], site.bb):
                    return "guard: dominated by index < len"
        # (b) unwrap dominated by is_some()/is_ok() on the same place, or on the Some arm of a match of the same value
        if site.kind == "K2":
            p = op_place(site.node["args"][0])
            src = self.src_local(site.node["args"][0])
            if src is not None:
                if self.is_some_guard(src, site.bb):
                    return "guard: dominated by is_some()/is_ok() of the same value"
            prod = _producer(fn, self.defs, site.node["args"][0]) or ""
            # char::from_u32 of a value known < 0xD800 etc. handled by range
            if prod.endswith("::from_u32"):
                d = self._producer_call(site.node["args"][0])
                if d is not None:
                    q = self.src_local(d["args"][0])
                    if q is not None and not q["p"]:
                        lo, hi = self.range_of(q["l"], site.bb)
                        # through a widening cast
                        if hi is None:
                            dd = self.defs.single(q["l"])
                            if dd and dd[0] == "st" and dd[3]["rv"]["k"] == "cast":
                                q2 = self.src_local(dd[3]["rv"]["op"])
                                if q2 is not None and not q2["p"]:
                                    t2 = fn.local_ty(q2["l"])
                                    if t2 == "u8":
                                        return "type: char::from_u32 of a u8"
                                    lo, hi = self.range_of(q2["l"], site.bb)
                        if hi is not None and hi < 0xD800 and (lo is None or lo >= 0):
                            return "guard: char::from_u32 of a value <= %d" % hi
            if prod.endswith("TryInto>::try_into") or prod.endswith("TryFrom>::try_from"):
                d = self._producer_call(site.node["args"][0])
                if d is not None:
                    q = self.src_local(d["args"][0])
                    arg_ty = fn.local_ty(op_place(site.node["args"][0])["l"])
                    m = re.match(r"core::result::Result<(\w+), ", arg_ty)
                    if q is not None and not q["p"] and m and m.group(1) in INT_RANGE:
                        lo, hi = self.range_of(q["l"], site.bb)
                        d_rng = INT_RANGE[m.group(1)]
                        if lo is not None and hi is not None and d_rng[0] <= lo and hi <= d_rng[1]:
                            return "guard: dominating comparisons bound the converted value in [%d,%d]" % (lo, hi)
        return None

    def slice_copy_rule(self, site):
        """`dst[..src.len()].copy_from_slice(&src)` / `dst[a..a + src.len()]`: the destination was cut to the source's length"""
        if site.kind != "K4" or "copy_from_slice" not in site.what and "clone_from_slice" not in site.what:
            return None
        args = site.node["args"]
        if len(args) != 2:
            return None

        def root(o):
            """the place a (possibly unsized / reborrowed) reference operand points to"""
            p = op_place(o)
            for _ in range(6):
                if p is None:
                    return None
                if p["p"]:
                    return (p["l"], tuple(e["f"] if isinstance(e, dict) and "f" in e else e for e in p["p"] if e != "*"))
                d = self.defs.single(p["l"])
                if d is None or d[0] != "st" or d[3]["k"] != "=":
                    return (p["l"], ())
                rv = d[3]["rv"]
                if rv["k"] in ("use", "cast"):
                    p = op_place(rv["op"])
                elif rv["k"] in ("ref", "rawptr"):
                    p = rv["pl"]
                    if not [e for e in p["p"] if e != "*"] and "*" not in p["p"]:
                        return (p["l"], ())
                    if "*" in p["p"] and len(p["p"]) == 1:
                        p = {"l": p["l"], "p": []}
                        continue
                    return (p["l"], tuple(e["f"] if isinstance(e, dict) and "f" in e else e for e in p["p"] if e != "*"))
                else:
                    return (p["l"], ())
            return None
        src_root = root(args[1])
        # destination: result of an index call with a RangeTo / Range whose end is len(src)
        dc = self._producer_call(args[0])
        if dc is None:
            # through a reborrow `&mut (*_x)`
            p = op_place(args[0])
            d = self.defs.single(p["l"]) if p is not None and not p["p"] else None
            if d and d[0] == "st" and d[3]["k"] == "=" and d[3]["rv"]["k"] == "ref":
                q = d[3]["rv"]["pl"]
                dd = self.defs.single(q["l"])
                if dd and dd[0] == "call":
                    dc = dd[3]
        if dc is None or not strip_generics(callee_name(dc) or "").split("::")[-1] in ("index_mut", "index") or len(dc["args"]) != 2:
            return None
        rp = op_place(dc["args"][1])
        rd = self.defs.single(rp["l"]) if rp is not None and not rp["p"] else None
        if not (rd and rd[0] == "st" and rd[3]["k"] == "=" and rd[3]["rv"]["k"] == "agg" and rd[3]["rv"].get("ak") == "adt" and rd[3]["rv"]["adt"].endswith("RangeTo")):
            return None
        cend = self.eval_const(rd[3]["rv"]["ops"][0])
        if cend is not None:
            # `dst[..24].copy_from_slice(&src)` with src: [T; 24]
            sp = op_place(args[1])
            for _ in range(5):
                if sp is None:
                    break
                ty = self.fn.local_ty(sp["l"]) if not sp["p"] else ""
                m = re.match(r"^&(?:mut )?\[.*; (\d+)\]$", ty)
                if m:
                    return "guard: destination cut to the constant %d, the length of the source array" % cend if int(m.group(1)) == cend else None
                d = self.defs.single(sp["l"]) if not sp["p"] else None
                if d and d[0] == "st" and d[3]["k"] == "=" and d[3]["rv"]["k"] in ("use", "cast"):
                    sp = op_place(d[3]["rv"]["op"])
                elif d and d[0] == "st" and d[3]["k"] == "=" and d[3]["rv"]["k"] == "ref":
                    q = d[3]["rv"]["pl"]
                    if q["p"] == ["*"]:
                        sp = {"l": q["l"], "p": []}
                    elif not q["p"]:
                        ty = self.fn.local_ty(q["l"])
                        m = re.match(r"^\[.*; (\d+)\]$", ty)
                        if m:
                            return "guard: destination cut to the constant %d, the length of the source array" % cend if int(m.group(1)) == cend else None
                        break
                    else:
                        break
                else:
                    break
            return None
        lc = self._producer_call(rd[3]["rv"]["ops"][0])
        if lc is None or not strip_generics(callee_name(lc) or "").endswith("::len") or not lc["args"]:
            return None
        if src_root is not None and root(lc["args"][0]) == src_root:
            return "guard: the destination is cut with `..src.len()` of the very source slice"
        return None

    def _range_iter_index(self, ln, ix):
        """`for i in 0..x.len()` (possibly .rev() / .step_by()): the index comes out of Iterator::next on an iterator built from
        a Range whose end is the length of the very slice being indexed"""
        fn = self.fn
        p = self.src_local(ix)
        if p is None or p["p"]:
            return None
        d = self.defs.single(p["l"])
        # i = (opt as Some).0
        if not (d and d[0] == "st" and d[3]["k"] == "=" and d[3]["rv"]["k"] == "use"):
            return None
        q = op_place(d[3]["rv"]["op"])
        if q is None or not q["p"]:
            return None
        nd = self.defs.single(q["l"])
        if not (nd and nd[0] == "call" and strip_generics(callee_name(nd[3]) or "").endswith("::next")):
            return None
        og = self.flow.operand_origins(nd[3]["args"][0])
        if not any(k == "agg" and str(v).endswith("Range") or k == "agg" and "range::Range" in str(v) for k, v in og):
            return None
        calls = {strip_generics(v).split("::")[-1] for k, v in og if k == "call" and v}
        if calls - {"into_iter", "rev", "len", "next", "iter", "deref", "as_slice", "as_ref", "borrow", "step_by", "clone"}:
            return None
        # the Range aggregate: start is a constant >= 0, end is a `len` of the slice whose length the check uses
        ranges = [st for b in fn.blocks for st in b["s"] if st["k"] == "=" and st["rv"]["k"] == "agg" and st["rv"].get("ak") == "adt"
                  and st["rv"]["adt"].endswith("ops::range::Range") and ("local", st["lhs"]["l"]) in og]
        lvc = self.eval_const(ln)
        if lvc is not None and ranges and all(len(st["rv"]["ops"]) == 2 and self.eval_const(st["rv"]["ops"][0]) is not None and self.eval_const(st["rv"]["ops"][0]) >= 0
                                              and self.eval_const(st["rv"]["ops"][1]) is not None and self.eval_const(st["rv"]["ops"][1]) <= lvc for st in ranges):
            return "guard: index comes from a constant Range within the constant length %d" % lvc
        for b in fn.blocks:
            for st in b["s"]:
                if st["k"] == "=" and st["rv"]["k"] == "agg" and st["rv"].get("ak") == "adt" and st["rv"]["adt"].endswith("ops::range::Range"):
                    ops = st["rv"]["ops"]
                    if len(ops) != 2 or const_operand(ops[0]) is None:
                        continue
                    ec = self._producer_call(ops[1])
                    end_len_of = None
                    if ec is not None and strip_generics(callee_name(ec) or "").endswith("::len") and ec["args"]:
                        end_len_of = self.defs.resolve_place(ec["args"][0])
                    # the bounds check's length: Len/PtrMetadata of a place
                    lp = self.src_local(ln)
                    ld = self.defs.single(lp["l"]) if lp is not None and not lp["p"] else None
                    chk_of = None
                    if ld and ld[0] == "st" and ld[3]["k"] == "=" and ld[3]["rv"]["k"] in ("len", "un", "ptrmeta"):
                        src = ld[3]["rv"].get("pl") or op_place(ld[3]["rv"].get("a") or {})
                        chk_of = self.defs.resolve_place({"cp": src}) if src else None
                    if end_len_of is not None and chk_of is not None:
                        def base(pl):
                            return (pl["l"], tuple(e["f"] if isinstance(e, dict) and "f" in e else e for e in pl["p"] if e != "*"))
                        if base(end_len_of) == base(chk_of):
                            return "guard: index comes from a Range ending at the length of the indexed slice"
        return None

    def _producer_call(self, op):
        p = op_place(op)
        for _ in range(4):
            if p is None:
                return None
            d = self.defs.single(p["l"])
            if d is None:
                return None
            if d[0] == "call":
                return d[3]
            rv = d[3].get("rv", {})
            if rv.get("k") == "use":
                p = op_place(rv["op"])
            else:
                return None
        return None

    def _nm(self, l):
        if isinstance(l, tuple):
            base = "%s%s" % (self.fn.local_name(l[1]) or "_%d" % l[1], "".join(".%s" % x for x in l[2]))
            return "len(%s)" % base if l[0] == "L" else base
        return self.fn.local_name(l) or "_%d" % l

    # ---- dominating comparison facts
    def _cmp_edges(self):
        """[(block, true_target, false_target, op, a_local|None, a_const|None, b_local|None, b_const|None)] for
        `switch (a <op> b)` blocks; also match-range arms via switchInt on the value itself."""
        if hasattr(self, "_ce"):
            return self._ce
        fn = self.fn
        out = []
        for bi, b in enumerate(fn.blocks):
            t = b["t"]
            if t["k"] != "switch":
                continue
            p = op_place(t["op"])
            if p is None or p["p"]:
                continue
            m = dict((v, bb) for v, bb in t["ts"])
            # find defining stmt in this block
            cmp_st = None
            for st in b["s"]:
                if st["k"] == "=" and st["lhs"]["l"] == p["l"] and not st["lhs"]["p"]:
                    cmp_st = st
            if cmp_st is None or (cmp_st["rv"]["k"] == "use" and fn.local_ty(p["l"]) == "bool"):
                # `let is_nested = depth >= 2; ... if is_nested { .. }`: the flag is computed earlier; sound when the flag and
                # both compared values are assigned exactly once
                src = self.src_local(t["op"])
                d0 = self.defs.single(src["l"]) if src is not None and not src["p"] else None
                if d0 is not None and d0[0] == "st" and d0[3]["k"] == "=" and d0[3]["rv"]["k"] == "bin" and d0[3]["rv"]["op"] in ("Lt", "Le", "Gt", "Ge", "Eq", "Ne"):
                    def once(o):
                        if op_place(o) is None:
                            return True
                        q = self.src_local(o)
                        if q is None:
                            return False
                        # every local on the copy chain, including the variable itself, is assigned once
                        chain = [op_place(o)["l"], q["l"]]
                        return all(l in self._stable_bases() for l in chain)
                    if once(d0[3]["rv"]["a"]) and once(d0[3]["rv"]["b"]) and self.fn.local_ty(src["l"]) == "bool":
                        cmp_st = d0[3]
            if cmp_st is not None and cmp_st["rv"]["k"] == "bin" and cmp_st["rv"]["op"] in ("Lt", "Le", "Gt", "Ge", "Eq", "Ne"):
                a, c = cmp_st["rv"]["a"], cmp_st["rv"]["b"]
                true_t = t["else"] if 0 in m else m.get(1)
                false_t = m.get(0, t["else"])
                out.append((bi, true_t, false_t, cmp_st["rv"]["op"],
                            self.vkey(a), self.eval_const(a),
                            self.vkey(c), self.eval_const(c)))
            elif cmp_st is None and self.defs.single(p["l"]) is not None and self.defs.single(p["l"])[0] == "call" \
                    and strip_generics(callee_name(self.defs.single(p["l"])[3]) or "").split("::")[-1] == "is_empty" and len(self.defs.single(p["l"])[3]["args"]) == 1:
                lk = self._len_key(self.defs.single(p["l"])[3]["args"][0])
                if lk is not None:
                    true_t = t["else"] if 0 in m else m.get(1)
                    false_t = m.get(0, t["else"])
                    out.append((bi, true_t, false_t, "Eq", lk, None, None, 0))
            elif cmp_st is None or cmp_st["rv"]["k"] == "use":
                # switch directly on an integer value: each target knows value == v
                k = self.vkey(t["op"])
                if k is not None and self.key_ty(k) in INT_RANGE:
                    for v, bb in t["ts"]:
                        out.append((bi, bb, None, "Eq", k, None, None, v))
        self._ce = out
        return out

    def _fact_valid(self, key, guard_bb, target, site_bb):
        """a fact learnt about `key` on the edge guard_bb->target still holds at site_bb: the variable is not assigned on any
        way from the edge to the site (an assignment inside the site's own block counts as in between)"""
        if isinstance(key, tuple):
            return True  # places on stable bases: never assigned
        dl = [d for d in self.defs.defs.get(key, [])]
        if 1 <= key <= self.fn.argc:
            pass
        elif len(dl) <= 1:
            return True
        from .cfg import reachable
        if not hasattr(self, "_reach_cache"):
            self._reach_cache = {}
        ck = (target, guard_bb)
        if ck not in self._reach_cache:
            self._reach_cache[ck] = reachable(self.fn, target, blocked={guard_bb})
        r1 = self._reach_cache[ck]
        for d in dl:
            db = d[1]
            if db == guard_bb and (1 <= key <= self.fn.argc or len(dl) > 1):
                # assigned in the guard block itself: before the comparison (it is what was compared)
                continue
            if db == site_bb and db != target:
                return False
            if db in r1:
                ck2 = (db, guard_bb)
                if ck2 not in self._reach_cache:
                    self._reach_cache[ck2] = reachable(self.fn, db, blocked={guard_bb})
                if site_bb in self._reach_cache[ck2] or db == site_bb:
                    return False
        return True

    def _edge_dominates(self, src_block, target, site_bb):
        """edge src_block->target dominates site_bb: target dominates site_bb and target's only pred is src_block
        (or target itself is only reachable through that edge)."""
        if target is None:
            return False
        if target not in self.dom.get(site_bb, ()):
            return False
        preds = [p for p in self.fn.pred()[target]]
        return preds == [src_block] or all(p == src_block for p in preds)

    def range_of(self, local, site_bb):
        """(lo, hi) implied for `local` at site_bb by dominating comparison edges with constants, and by its type
        after a widening cast."""
        local = self._canon(local)
        lo = hi = None
        ty = self.key_ty(local)
        nes = set()
        # through a widening/IntToInt cast from a narrower unsigned type
        d = self.defs.single(local) if not isinstance(local, tuple) else None
        if d and d[0] == "st" and d[3]["k"] == "=" and d[3]["rv"]["k"] == "cast" and d[3]["rv"]["ck"] == "IntToInt":
            q = self.src_local(d[3]["rv"]["op"])
            if q is not None and not q["p"]:
                sty = self.fn.local_ty(q["l"])
                if sty in INT_RANGE and ty in INT_RANGE:
                    s, dd = INT_RANGE[sty], INT_RANGE[ty]
                    if dd[0] <= s[0] and s[1] <= dd[1]:
                        lo, hi = s
                        l2, h2 = self.range_of(q["l"], site_bb)
                        if l2 is not None:
                            lo = max(lo, l2)
                        if h2 is not None:
                            hi = min(hi, h2)
        for (bi, tt, ft, op, al, ac, bl, bc) in self._cmp_edges():
            for target, truth in ((tt, True), (ft, False)):
                if target is None or not self._edge_dominates(bi, target, site_bb):
                    continue
                o = op if truth else {"Lt": "Ge", "Le": "Gt", "Gt": "Le", "Ge": "Lt", "Eq": "Ne", "Ne": "Eq"}[op]
                if al == local and bc is not None:
                    c = bc
                elif bl == local and ac is not None:
                    c = ac
                    o = {"Lt": "Gt", "Le": "Ge", "Gt": "Lt", "Ge": "Le", "Eq": "Eq", "Ne": "Ne"}[o]
                else:
                    continue
                if not self._fact_valid(local, bi, target, site_bb):
                    continue
                if o == "Lt":
                    hi = c - 1 if hi is None else min(hi, c - 1)
                elif o == "Le":
                    hi = c if hi is None else min(hi, c)
                elif o == "Gt":
                    lo = c + 1 if lo is None else max(lo, c + 1)
                elif o == "Ge":
                    lo = c if lo is None else max(lo, c)
                elif o == "Eq":
                    lo = c if lo is None else max(lo, c)
                    hi = c if hi is None else min(hi, c)
                elif o == "Ne":
                    nes.add(c)
        if ty in INT_RANGE:
            # `x != c` where c is the end of the known range (typically `x != 0` on an unsigned value)
            elo = lo if lo is not None else INT_RANGE[ty][0]
            ehi = hi if hi is not None else INT_RANGE[ty][1]
            changed = True
            while changed and nes:
                changed = False
                if elo in nes:
                    elo += 1
                    lo = elo
                    changed = True
                if ehi in nes:
                    ehi -= 1
                    hi = ehi
                    changed = True
            if lo is None and hi is not None:
                lo = INT_RANGE[ty][0]
            if hi is None and lo is not None:
                hi = INT_RANGE[ty][1]
        return lo, hi

    def interval_of(self, local, bb, depth=4):
        """(lo, hi) of an integer local at block bb: its type, the dominating guards (range_of) and — for a single-definition temporary —
        the interval arithmetic of `copy`, `a % c`, `a / c`, `a & c`, `a >> c` with a literal c over the interval of a."""
        ty = self.fn.local_ty(local)
        if ty not in INT_RANGE:
            return None
        lo, hi = INT_RANGE[ty]
        r = self.range_of(local, bb)
        if r[0] is not None:
            lo = max(lo, r[0])
        if r[1] is not None:
            hi = min(hi, r[1])
        d = self.defs.single(local)
        if depth > 0 and d is not None and d[0] == "st" and d[3]["k"] == "=" and not d[3]["lhs"]["p"] and self.fn.local_name(local) is None:
            rv = d[3]["rv"]
            sub = None
            if rv["k"] == "use":
                q = op_place(rv["op"])
                if q is not None and not q["p"] and self._never_reassigned(q["l"]):
                    sub = self.interval_of(q["l"], bb, depth - 1)
            elif rv["k"] == "bin" and rv["op"] in ("Rem", "Div", "BitAnd", "Shr"):
                q = op_place(rv["a"])
                c = const_operand(rv["b"])
                if q is not None and not q["p"] and c is not None and self._never_reassigned(q["l"]):
                    a = self.interval_of(q["l"], bb, depth - 1)
                    if a is not None and a[0] >= 0:
                        if rv["op"] == "Rem" and c > 0:
                            sub = (0, min(c - 1, a[1]))
                        elif rv["op"] == "Div" and c > 0:
                            sub = (a[0] // c, a[1] // c)
                        elif rv["op"] == "BitAnd" and c >= 0:
                            sub = (0, min(c, a[1]))
                        elif rv["op"] == "Shr" and 0 <= c < 64:
                            sub = (a[0] >> c, a[1] >> c)
            if sub is not None:
                lo, hi = max(lo, sub[0]), min(hi, sub[1])
        return lo, hi

    def _never_reassigned(self, local):
        n = len(self.defs.defs.get(local, []))
        return n == 0 if 1 <= local <= self.fn.argc else n == 1

    def _str_base(self, op, depth=8):
        """identity of the string slice an operand refers to, through reborrows and copies of single-definition locals: (local, projection text)"""
        p = op_place(op)
        for _ in range(depth):
            if p is None:
                return None
            if p["p"] not in ([], ["*"]):
                return (p["l"], json.dumps(p["p"], sort_keys=True))
            d = self.defs.single(p["l"])
            if d is None or d[0] != "st" or d[3]["k"] != "=":
                return (p["l"], "")
            rv = d[3]["rv"]
            if rv["k"] == "ref":
                p = rv["pl"]
                if p["p"] == ["*"]:
                    p = {"l": p["l"], "p": []}
                continue
            if rv["k"] == "use":
                p = op_place(rv["op"])
                continue
            return (p["l"], "")
        return None

    SUBSLICE_CALLS = ("trim", "trim_end", "trim_start", "trim_matches", "trim_end_matches", "trim_start_matches", "trim_ascii", "trim_ascii_end",
                      "trim_ascii_start", "trim_left", "trim_right")

    def str_idiom_rule(self, site):
        """two facts about std's str API: (a) `a.len() - b.len()` cannot underflow when b is `a.trim*(..)` (a sub-slice of a);
        (b) `&s[..i]`, `&s[i..]` cannot panic when i is the payload of `s.find(..)` / `s.rfind(..)` on the same s (a character boundary <= len)"""
        fn = self.fn
        if site.kind == "K3" and site.what == "Overflow:Sub":
            a, b = site.node["ops"]
            ca, cb = self._producer_call(a), self._producer_call(b)
            if ca is None or cb is None:
                return None
            if not (strip_generics(callee_name(ca) or "").endswith("str>::len") and strip_generics(callee_name(cb) or "").endswith("str>::len")):
                return None
            whole = self._str_base(ca["args"][0])
            # b's receiver: the result of a trim call on `whole`
            p = op_place(cb["args"][0])
            for _ in range(6):
                if p is None:
                    return None
                d = self.defs.single(p["l"])
                if d is None:
                    return None
                if d[0] == "call":
                    n = strip_generics(callee_name(d[3]) or "")
                    if n.startswith("core::str::<impl str>::") and n.split("::")[-1] in self.SUBSLICE_CALLS and d[3]["args"]:
                        if whole is not None and self._str_base(d[3]["args"][0]) == whole:
                            return "str: `a.len() - a.%s(..).len()` — the trimmed string is a sub-slice of a" % n.split("::")[-1]
                    return None
                rv = d[3].get("rv", {})
                if rv.get("k") == "ref":
                    p = {"l": rv["pl"]["l"], "p": []} if rv["pl"]["p"] in ([], ["*"]) else None
                elif rv.get("k") == "use":
                    p = op_place(rv["op"])
                else:
                    return None
            return None
        if site.kind == "K4" and site.what.startswith("index:") and "for str" in site.what and len(site.node.get("args") or []) == 2:
            base = self._str_base(site.node["args"][0])
            rp = op_place(site.node["args"][1])
            rd = self.defs.single(rp["l"]) if rp is not None and not rp["p"] else None
            if base is None or not (rd and rd[0] == "st" and rd[3]["k"] == "=" and rd[3]["rv"]["k"] == "agg"):
                return None
            adt = str(rd[3]["rv"].get("adt", ""))
            if not (adt.endswith("RangeTo") or adt.endswith("RangeFrom")):
                return None
            for o in rd[3]["rv"]["ops"]:
                # the bound: payload of find/rfind on the same string, on its Some arm
                q = op_place(o)
                ok = False
                for _ in range(4):
                    if q is None:
                        break
                    d = self.defs.single(q["l"])
                    if d is None or d[0] != "st" or d[3]["k"] != "=" or d[3]["rv"]["k"] != "use":
                        break
                    src = op_place(d[3]["rv"]["op"])
                    if src is None:
                        break
                    if src["p"] and isinstance(src["p"][0], dict) and src["p"][0].get("n") == "Some" and ("dc" in src["p"][0] or "v" in src["p"][0]):
                        # `(opt as Some).0`
                        dd = self.defs.single(src["l"])
                        if dd and dd[0] == "call":
                            n = strip_generics(callee_name(dd[3]) or "")
                            if n in ("core::str::<impl str>::find", "core::str::<impl str>::rfind") and self._str_base(dd[3]["args"][0]) == base:
                                ok = True
                        break
                    if src["p"]:
                        break
                    q = src
                if not ok:
                    return None
            return "str: sliced at the position `find` returned for the same string (a character boundary within it)"
        return None

    def dead_arm_rule(self, site):
        """an explicit panic (`unreachable!()`, `panic!()`) in the fall-through arm of a `match` on an integer whose interval — from its type,
        the dominating guards and % / & >> by literals — is covered by the arms that are listed"""
        if site.kind != "K1":
            return None
        preds = self.fn.pred()
        bb = site.bb
        for _ in range(3):
            ps = list(preds[bb])
            if len(ps) != 1:
                return None
            pb = ps[0]
            t = self.fn.blocks[pb]["t"]
            if t["k"] == "switch" and t.get("else") == bb and bb not in [tb for _, tb in t["ts"]]:
                q = op_place(t["op"])
                if q is None or q["p"]:
                    return None
                iv = self.interval_of(q["l"], pb)
                if iv is None or iv[1] - iv[0] > 4096:
                    return None
                listed = {v for v, _ in t["ts"]}
                if all(v in listed for v in range(iv[0], iv[1] + 1)):
                    return "dead_arm: the matched value lies in [%d, %d] and every value of that interval has its own arm" % iv
                return None
            if t["k"] != "goto":
                return None
            bb = pb
        return None

    def dominating_cmp(self, a, b, site_bb):
        """a >= b holds at site"""
        a, b = self._canon(a), self._canon(b)
        for (bi, tt, ft, op, al, ac, bl, bc) in self._cmp_edges():
            for target, truth in ((tt, True), (ft, False)):
                if target is None or not self._edge_dominates(bi, target, site_bb):
                    continue
                o = op if truth else {"Lt": "Ge", "Le": "Gt", "Gt": "Le", "Ge": "Lt", "Eq": "Ne", "Ne": "Eq"}[op]
                if not (self._fact_valid(a, bi, target, site_bb) and self._fact_valid(b, bi, target, site_bb)):
                    continue
                if al == a and bl == b and o in ("Ge", "Gt", "Eq"):
                    return True
                if al == b and bl == a and o in ("Le", "Lt", "Eq"):
                    return True
        return False

    def dominating_lt(self, a, b, site_bb):
        a, b = self._canon(a), self._canon(b)
        for (bi, tt, ft, op, al, ac, bl, bc) in self._cmp_edges():
            for target, truth in ((tt, True), (ft, False)):
                if target is None or not self._edge_dominates(bi, target, site_bb):
                    continue
                o = op if truth else {"Lt": "Ge", "Le": "Gt", "Gt": "Le", "Ge": "Lt", "Eq": "Ne", "Ne": "Eq"}[op]
                if not (self._fact_valid(a, bi, target, site_bb) and self._fact_valid(b, bi, target, site_bb)):
                    continue
                if al == a and bl == b and o == "Lt":
                    return True
                if al == b and bl == a and o == "Gt":
                    return True
        return False

    def ne_zero_guard(self, local, site_bb):
        local = self._canon(local)
        for (bi, tt, ft, op, al, ac, bl, bc) in self._cmp_edges():
            for target, truth in ((tt, True), (ft, False)):
                if target is None or not self._edge_dominates(bi, target, site_bb):
                    continue
                o = op if truth else {"Lt": "Ge", "Le": "Gt", "Gt": "Le", "Ge": "Lt", "Eq": "Ne", "Ne": "Eq"}[op]
                if ((al == local and bc == 0) or (bl == local and ac == 0)) and o == "Ne" and self._fact_valid(local, bi, target, site_bb):
                    return True
        return False

    def is_some_guard(self, place, site_bb):
        """an `is_some()`/`is_ok()` call on the same local whose true edge dominates the site"""
        fn = self.fn
        for bi, t in fn.calls():
            n = strip_generics(callee_name(t) or "")
            if n.split("::")[-1] not in ("is_some", "is_ok"):
                continue
            rp = self.defs.resolve_place(t["args"][0])
            if rp is None or rp["l"] != place["l"]:
                continue
            nb = fn.blocks[t["t"]]["t"] if t.get("t") is not None else None
            if nb and nb["k"] == "switch":
                m = dict((v, bb) for v, bb in nb["ts"])
                true_t = nb["else"] if 0 in m else m.get(1)
                if self._edge_dominates(t["t"], true_t, site_bb):
                    return True
        return False
