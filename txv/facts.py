"""Load the JSON facts and index them.  Also a MIR pretty-printer used for
diagnostics (`./txv.py dump <fn>`)."""
import glob
import json
import os
import re


class Fn:
    __slots__ = ("raw", "id", "name", "crate", "blocks", "locals", "file", "line",
                 "kind", "impl", "argc", "_succ", "_pred")

    def __init__(self, raw, crate):
        self.raw = raw
        self.id = raw["id"]
        self.name = raw["name"]
        self.crate = crate
        self.blocks = raw["blocks"]
        self.locals = raw["locals"]
        self.file = raw["file"]
        self.line = raw["line"]
        self.kind = raw["kind"]
        self.impl = raw.get("impl")
        self.argc = raw["argc"]
        self._succ = None
        self._pred = None

    # ---- CFG
    def succ(self, include_unwind=False):
        if include_unwind:
            return [term_succ(b["t"], True) for b in self.blocks]
        if self._succ is None:
            self._succ = [term_succ(b["t"], False) for b in self.blocks]
        return self._succ

    def pred(self):
        if self._pred is None:
            p = [[] for _ in self.blocks]
            for i, ss in enumerate(self.succ()):
                for s in ss:
                    p[s].append(i)
            self._pred = p
        return self._pred

    def local_ty(self, l):
        return self.locals[l][0]

    def local_name(self, l):
        return self.locals[l][1]

    def loc(self, node):
        """file:line of a statement/terminator."""
        return "%s:%s" % (node.get("file", self.file), node.get("ln", self.line))

    def calls(self):
        """yield (bb, term) for each call terminator"""
        for i, b in enumerate(self.blocks):
            if b["t"]["k"] == "call":
                yield i, b["t"]

    def __repr__(self):
        return "<Fn %s>" % self.name


def term_succ(t, include_unwind=False):
    k = t["k"]
    out = []
    if k == "goto":
        out = [t["t"]]
    elif k == "switch":
        out = [x[1] for x in t["ts"]] + [t["else"]]
    elif k in ("call", "drop", "assert"):
        if t.get("t") is not None:
            out = [t["t"]]
        if include_unwind and t.get("u") is not None:
            out.append(t["u"])
    # dedupe, keep order
    seen = []
    for x in out:
        if x not in seen:
            seen.append(x)
    return seen


def const_str(c):
    """string value of a `&str` constant operand dict, or None"""
    if c is None:
        return None
    if "str" in c:
        return c["str"]
    if c.get("ty") == "&str" and c.get("text", "").startswith('"') and c["text"].endswith('"'):
        try:
            return json.loads(c["text"])
        except ValueError:
            return c["text"][1:-1]
    return None


def callee_of(t):
    """(generic def id, resolved def id or None, display name) of a call terminator."""
    c = t.get("callee")
    if not c:
        return None
    return c


def callee_name(t):
    c = t.get("callee")
    if not c:
        return None
    return c.get("rfn") or c["fn"]


def strip_generics(s):
    """`a::B::<T>::c` / `a::B<T>` -> path without generic arguments; the
    qualified-path form `<T as Trait>::m` keeps its brackets."""
    out = []
    stack = []  # 'g' generic args (dropped) | 'q' qualified path (kept)
    i = 0
    n = len(s)
    while i < n:
        ch = s[i]
        dropping = "g" in stack
        if ch == "<":
            prev = s[i - 1] if i > 0 else ""
            is_generic = prev.isalnum() or prev == "_" or (i >= 2 and s[i - 2:i] == "::")
            if is_generic and s.startswith("<impl ", i) and not dropping:
                is_generic = False  # `path::<impl Trait for Type>::method` names an impl block: keep it
            if is_generic:
                if not dropping and out[-2:] == [":", ":"]:
                    out = out[:-2]
                stack.append("g")
            else:
                stack.append("q")
                if not dropping:
                    out.append(ch)
        elif ch == ">" and stack and not (i > 0 and s[i - 1] == "-"):
            kind = stack.pop()
            if kind == "q" and "g" not in stack:
                out.append(ch)
        elif not dropping:
            out.append(ch)
        i += 1
    return "".join(out)


class Facts:
    def __init__(self, facts_dir):
        self.dir = facts_dir
        self.crates = {}
        self.fns = {}
        self.by_name = {}
        self.adts = {}
        self.impls = []
        self.traits = {}
        self.statics = {}
        self.enums = {}
        self.unsafe_blocks = []
        self.children = {}  # fn id -> closure fn ids
        for p in sorted(glob.glob(os.path.join(facts_dir, "*.json"))):
            if p.endswith("DONE.json"):
                continue
            d = json.load(open(p))
            key = os.path.basename(p)[:-5]
            self.crates[key] = d
            for raw in d["fns"]:
                f = Fn(raw, key)
                self.fns[f.id] = f
                self.by_name.setdefault(f.name, []).append(f)
                if "parent" in raw:
                    self.children.setdefault(raw["parent"], []).append(f.id)
            for a in d["adts"]:
                a["crate"] = key
                self.adts[a["name"]] = a
            for im in d["impls"]:
                im["crate"] = key
                self.impls.append(im)
            for tr in d["traits"]:
                self.traits[tr["name"]] = tr
            for st in d["statics"]:
                self.statics[st["name"]] = st
            for name, vs in d["enums"]:
                self.enums[name] = vs
            for u in d["unsafe_blocks"]:
                u["crate"] = key
                self.unsafe_blocks.append(u)
        # enum table for local adts as well
        for a in self.adts.values():
            if a["kind"] == "enum":
                self.enums.setdefault(a["name"], [[v["name"], v["discr"], v["vi"]] for v in a["variants"]])

    # ---- lookup
    def fn(self, name, crate=None):
        """Unique function by display name (exact) — fail closed if missing/ambiguous."""
        c = self.by_name.get(name, [])
        if crate:
            c = [f for f in c if f.crate == crate]
        if len(c) != 1:
            raise AnchorError("anchor fn %r: %d matches" % (name, len(c)))
        return c[0]

    def fns_matching(self, pattern, crate=None):
        rx = re.compile(pattern)
        out = [f for f in self.fns.values() if rx.search(f.name)]
        if crate:
            out = [f for f in out if f.crate == crate]
        return sorted(out, key=lambda f: f.id)

    def adt(self, name):
        a = self.adts.get(name)
        if a is None:
            raise AnchorError("anchor adt %r missing" % name)
        return a

    def enum_variants(self, ty):
        """[(name, discr, vi)] for an enum type string (generics stripped)."""
        base = strip_generics(ty)
        return self.enums.get(base)

    def impls_of(self, trait):
        return [im for im in self.impls if im.get("trait") == trait]

    def closures_of(self, fn_id, recursive=True):
        out = []
        stack = [fn_id]
        while stack:
            x = stack.pop()
            for c in self.children.get(x, []):
                out.append(c)
                if recursive:
                    stack.append(c)
        return out


class AnchorError(Exception):
    pass


# ------------------------------------------------------------ pretty printer

def fmt_place(fn, p):
    s = "_%d" % p["l"]
    n = fn.local_name(p["l"]) if fn else None
    if n:
        s += "{%s}" % n
    for e in p["p"]:
        if e == "*":
            s = "(*%s)" % s
        elif isinstance(e, str):
            s += "." + e
        elif "f" in e:
            s += ".%s" % (e["n"] or e["f"])
        elif "ix" in e:
            s += "[_%d]" % e["ix"]
        elif "cix" in e:
            s += "[%s%d]" % ("-" if e["end"] else "", e["cix"])
        elif "sub" in e:
            s += "[%s]" % e["sub"]
        elif "dc" in e:
            s = "(%s as %s)" % (s, e["n"] or e["dc"])
    return s


def fmt_op(fn, o):
    if "cp" in o:
        return fmt_place(fn, o["cp"])
    if "mv" in o:
        return "move " + fmt_place(fn, o["mv"])
    if "c" in o:
        c = o["c"]
        if "int" in c:
            return "%d_%s" % (c["int"], c["ty"])
        if "fn" in c:
            return "fn:" + (c.get("rfn") or c["fn"])
        if "static" in c:
            return "static:" + c["static"]
        if "str" in c:
            return json.dumps(c["str"])
        return "const(%s)" % c.get("text", c["ty"])
    return str(o)


def fmt_rv(fn, rv):
    k = rv["k"]
    if k == "use":
        return fmt_op(fn, rv["op"])
    if k == "ref":
        return ("&mut " if rv["mut"] else "&") + fmt_place(fn, rv["pl"])
    if k == "rawptr":
        return ("&raw mut " if rv["mut"] else "&raw const ") + fmt_place(fn, rv["pl"])
    if k == "cast":
        return "%s as %s (%s)" % (fmt_op(fn, rv["op"]), rv["ty"], rv["ck"])
    if k == "bin":
        return "%s(%s, %s)" % (rv["op"], fmt_op(fn, rv["a"]), fmt_op(fn, rv["b"]))
    if k == "un":
        return "%s(%s)" % (rv["op"], fmt_op(fn, rv["a"]))
    if k == "discr":
        return "discriminant(%s)" % fmt_place(fn, rv["pl"])
    if k == "agg":
        ak = rv["ak"]
        ops = ", ".join(fmt_op(fn, o) for o in rv["ops"])
        if ak == "adt":
            return "%s::%s{%s}" % (rv["adt"], rv["variant"], ops)
        if ak == "closure":
            return "closure %s [%s]" % (rv["closure"], ops)
        return "%s(%s)" % (ak, ops)
    if k == "repeat":
        return "[%s; %s]" % (fmt_op(fn, rv["op"]), rv["n"])
    return json.dumps(rv)


def fmt_term(fn, t):
    k = t["k"]
    if k == "goto":
        return "goto bb%d" % t["t"]
    if k == "switch":
        return "switch %s [%s, else bb%d]" % (fmt_op(fn, t["op"]), ", ".join("%d→bb%d" % (v, b) for v, b in t["ts"]), t["else"])
    if k == "call":
        c = t.get("callee")
        if c:
            name = c.get("rfn") or c["fn"]
            if c.get("trait") and not c.get("rfn"):
                name = "<%s as %s>::%s" % (c.get("self_ty"), c["trait"], c["fn"].split("::")[-1])
        else:
            name = "(*%s)" % fmt_op(fn, t["ptr"])
        tgt = "bb%d" % t["t"] if t["t"] is not None else "!"
        mac = " [%s!]" % t["macs"][-1] if t.get("macs") else ""
        return "%s = %s(%s) → %s%s" % (fmt_place(fn, t["dest"]), name, ", ".join(fmt_op(fn, a) for a in t["args"]), tgt, mac)
    if k == "assert":
        return "assert(%s == %s, %s(%s)) → bb%d" % (fmt_op(fn, t["cond"]), t["exp"], t["ak"], ", ".join(fmt_op(fn, o) for o in t["ops"]), t["t"])
    if k == "drop":
        return "drop(%s) → bb%d" % (fmt_place(fn, t["pl"]), t["t"])
    return k


def dump_fn(fn, out=None):
    lines = []
    lines.append("fn %s   [%s]  %s:%d  argc=%d" % (fn.name, fn.id, fn.file, fn.line, fn.argc))
    for i, (ty, name) in enumerate(fn.locals):
        lines.append("  let _%d%s: %s" % (i, "{%s}" % name if name else "", ty))
    for i, b in enumerate(fn.blocks):
        lines.append("  bb%d%s:" % (i, " (cleanup)" if b.get("cleanup") else ""))
        for st in b["s"]:
            if st["k"] == "=":
                lines.append("    %s = %s    // %s" % (fmt_place(fn, st["lhs"]), fmt_rv(fn, st["rv"]), st.get("ln")))
            elif st["k"] == "setdiscr":
                lines.append("    discriminant(%s) = %d" % (fmt_place(fn, st["lhs"]), st["vi"]))
            elif st["k"] == "dead":
                pass
            else:
                lines.append("    %s" % json.dumps(st))
        lines.append("    %s    // %s" % (fmt_term(fn, b["t"]), b["t"].get("ln")))
    return "\n".join(lines)
