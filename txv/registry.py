"""The built-in command registry as visible in MIR: which functions are reified
into `BuiltIn::new_execution/new_expansion` by which getter, with which tag."""
from .dataflow import Flow
from .cfg import Defs
from .facts import strip_generics, callee_name

EXEC_IN = "texlang::vm::streams::ExecutionInput<"
EXP_IN = "texlang::vm::streams::ExpansionInput<"
TAG_TY = "texlang::command::Tag"


def static_of_tag_fn(F, fn_name, depth=3):
    """`xxx_tag()` -> the static it reads (through StaticTag::get)."""
    cands = F.by_name.get(fn_name, [])
    for f in cands:
        fl = Flow(f)
        o = fl.origins(0)
        st = sorted(v for k, v in o if k == "static")
        if st:
            return st[0]
        if depth > 0:
            for k, v in o:
                if k == "call" and v and v != fn_name:
                    s = static_of_tag_fn(F, strip_generics(v), depth - 1)
                    if s:
                        return s
    return None


def tag_identity(F, flow, operand):
    """Set of static names the Tag-typed operand may come from."""
    out = set()
    o = flow.operand_origins(operand)
    for k, v in o:
        if k == "static":
            out.add(v)
    for k, v in o:
        if k == "call" and v:
            n = strip_generics(v)
            if n.endswith("StaticTag::get"):
                continue
            s = static_of_tag_fn(F, n)
            if s:
                out.add(s)
    return out


class Primitive:
    def __init__(self, fn_id, fn_name, kind, getter, tags, loc):
        self.fn_id = fn_id
        self.fn_name = fn_name
        self.kind = kind  # 'execution' | 'expansion'
        self.getter = getter
        self.tags = tags
        self.loc = loc

    def __repr__(self):
        return "<Prim %s %s via %s tags=%s>" % (self.kind, self.fn_name, self.getter, sorted(self.tags))


def primitives(F):
    """Every fn reified to an execution/expansion primitive pointer anywhere in
    the workspace (non-test targets), with the getter that does it."""
    out = []
    for f in F.fns.values():
        reifs = []
        for bi, b in enumerate(f.blocks):
            for st in b["s"]:
                if st["k"] != "=":
                    continue
                rv = st["rv"]
                if rv["k"] == "cast" and rv["ck"].startswith(("ReifyFnPointer", "ClosureFnPointer")):
                    ty = rv["ty"]
                    if EXEC_IN in ty and "texlang::token::Token" in ty:
                        kind = "execution"
                    elif EXP_IN in ty and "texlang::token::Token" in ty:
                        kind = "expansion"
                    else:
                        continue
                    c = rv["op"].get("c", {})
                    if "fn" in c:
                        reifs.append((c.get("rid") or c["id"], c.get("rfn") or c["fn"], kind, f.loc(st)))
                    else:
                        # closure coerced to fn pointer
                        p = rv["op"].get("mv") or rv["op"].get("cp")
                        cid = None
                        dd = Defs(f)
                        for _ in range(5):
                            if p is None:
                                break
                            d = dd.single(p["l"])
                            if not d or d[0] != "st" or d[3]["k"] != "=":
                                break
                            r2 = d[3]["rv"]
                            if r2["k"] == "agg" and r2.get("ak") == "closure":
                                cid = r2["closure"]
                                break
                            if r2["k"] == "use":
                                p = r2["op"].get("mv") or r2["op"].get("cp")
                            else:
                                break
                        cname = F.fns[cid].name if cid in F.fns else "closure in %s" % f.name
                        reifs.append((cid, cname, kind, f.loc(st)))
        if not reifs:
            continue
        fl = None
        tags = set()
        for bi, t in f.calls():
            n = strip_generics(callee_name(t) or "")
            if n.endswith("BuiltIn::with_tag"):
                fl = fl or Flow(f)
                tags |= tag_identity(F, fl, t["args"][1])
        for rid, rname, kind, loc in reifs:
            out.append(Primitive(rid, rname, kind, f.name, set(tags), loc))
    return out


def prefixable_statics(F):
    """Tag statics that `\\global` accepts: what `prefix::Tags::default` puts in
    `can_be_prefixed_with_any` / `can_be_prefixed_with_global`, plus arguments
    of `register_globally_prefixable_command` in shipped (non-test) code."""
    f = F.fn("<texlang_stdlib::prefix::Tags as core::default::Default>::default")
    fl = Flow(f)
    result = {"any": set(), "global": set()}
    found = False
    for b in f.blocks:
        for st in b["s"]:
            if st["k"] == "=" and st["rv"]["k"] == "agg" and st["rv"].get("adt") == "texlang_stdlib::prefix::Tags":
                found = True
                fields = st["rv"]["fields"]
                for name, op in zip(fields, st["rv"]["ops"]):
                    if name == "can_be_prefixed_with_any":
                        result["any"] |= tag_identity(F, fl, op)
                    elif name == "can_be_prefixed_with_global":
                        result["global"] |= tag_identity(F, fl, op)
    if not found:
        from .facts import AnchorError
        raise AnchorError("prefix::Tags aggregate not found in Tags::default")
    registered = set()
    for g in F.fns.values():
        for bi, t in g.calls():
            n = strip_generics(callee_name(t) or "")
            if n.endswith("prefix::Component::register_globally_prefixable_command"):
                registered |= tag_identity(F, Flow(g), t["args"][1])
    result["registered"] = registered
    return result
