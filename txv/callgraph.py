"""Whole-workspace call graph over generic defs (one node per fn, not per
instantiation).  Over-approximate ("may reach")."""
from collections import deque

from .dataflow import rv_operands
from .facts import strip_generics


def _ptr_shape(ty):
    """Normalise a fn-pointer type for matching reifications with indirect
    calls: drop lifetimes' binders and generic arguments."""
    t = ty
    if t.startswith("for<"):
        depth = 0
        for i, ch in enumerate(t):
            if ch == "<":
                depth += 1
            elif ch == ">":
                depth -= 1
                if depth == 0:
                    t = t[i + 1:].lstrip()
                    break
    import re
    t = re.sub(r"'[a-z_0-9]+ ", "", t)
    t = re.sub(r"'[a-z_0-9]+", "", t)
    return strip_generics(t)


def _unref(t):
    t = t.strip()
    while t.startswith("&"):
        t = t[1:].lstrip()
        if t.startswith("'"):
            t = t.split(" ", 1)[1] if " " in t else t
        if t.startswith("mut "):
            t = t[4:]
    if t.startswith("dyn "):
        return ""
    return t


def _is_param(t):
    import re
    return bool(re.match(r"^[A-Z][A-Za-z0-9_]*$", t)) or t.startswith("<") or t == ""


def _concrete_self(sty):
    """generic-stripped concrete self type, or None for a type parameter /
    projection / dyn (full CHA)"""
    t = _unref(sty)
    if _is_param(t):
        return None
    if t.startswith("dyn ") or t.startswith("impl "):
        return None
    return strip_generics(t)


class CallGraph:
    def __init__(self, F, cha_crates=None):
        self.F = F
        self.cha_crates = cha_crates
        self.edges = {}       # fn id -> set(fn id)
        self.kinds = {"direct": 0, "cha": 0, "fnptr": 0, "closure": 0, "fnref": 0, "drop": 0, "bridge": 0}
        # std-trait impls per workspace ADT (for calls into std generics that dispatch back)
        ws_traits = set(F.traits.keys())
        self.std_impls_of_adt = {}
        self.fmt_impls = {"core::fmt::Display": [], "core::fmt::Debug": []}
        for f in F.fns.values():
            if f.impl and f.impl.get("trait") and f.impl["trait"] not in ws_traits:
                if f.impl.get("self_adt"):
                    self.std_impls_of_adt.setdefault(f.impl["self_adt"], []).append(f.id)
                if f.impl["trait"] in self.fmt_impls:
                    self.fmt_impls[f.impl["trait"]].append(f.id)
        self._adt_names = sorted(F.adts.keys(), key=len, reverse=True)
        self._bridge_cache = {}
        self.why = {}         # (src, dst) -> kind
        # impl index: trait item id -> [impl fn ids]
        self.impls_of_item = {}
        for f in F.fns.values():
            if f.impl and f.impl.get("trait_item"):
                self.impls_of_item.setdefault(f.impl["trait_item"], []).append(f.id)
        # reifications: pointer shape -> set(fn id)
        self.reified = {}
        self.reified_in = {}
        for f in F.fns.values():
            for b in f.blocks:
                for st in b["s"]:
                    if st["k"] != "=":
                        continue
                    rv = st["rv"]
                    if rv["k"] == "cast" and rv["ck"].startswith(("ReifyFnPointer", "ClosureFnPointer")):
                        c = rv["op"].get("c", {})
                        tid = c.get("rid") or c.get("id")
                        if tid is None:
                            # closure: find its id through children of f with matching type is hard; add all closures of f
                            for cid in F.closures_of(f.id):
                                self.reified.setdefault(_ptr_shape(rv["ty"]), set()).add(cid)
                                self.reified_in.setdefault(f.id, set()).add(cid)
                            continue
                        self.reified.setdefault(_ptr_shape(rv["ty"]), set()).add(tid)
                        self.reified_in.setdefault(f.id, set()).add(tid)
        # Drop impls
        self.drop_impls = {}
        for f in F.fns.values():
            if f.impl and f.impl.get("trait") == "core::ops::drop::Drop" and f.impl.get("self_adt"):
                self.drop_impls[f.impl["self_adt"]] = f.id
        for f in F.fns.values():
            self.edges[f.id] = self._edges_of(f)

    def _add(self, out, src, dst, kind):
        if dst in self.F.fns and dst not in out:
            out.add(dst)
            self.kinds[kind] += 1
            self.why[(src, dst)] = kind

    def _edges_of(self, f):
        F = self.F
        out = set()
        for cid in F.children.get(f.id, []):
            self._add(out, f.id, cid, "closure")
        for b in f.blocks:
            if b.get("cleanup"):
                continue
            for st in b["s"]:
                if st["k"] != "=":
                    continue
                for o in rv_operands(st["rv"]):
                    c = o.get("c")
                    if c and "fn" in c:
                        self._fn_target(out, f, c, "fnref")
            t = b["t"]
            if t["k"] == "call":
                for a in t["args"]:
                    c = a.get("c")
                    if c and "fn" in c:
                        self._fn_target(out, f, c, "fnref")
                c = t.get("callee")
                if c:
                    self._fn_target(out, f, c, "direct")
                else:
                    shape = _ptr_shape(t.get("ptr_ty") or t.get("ptr", {}).get("c", {}).get("ty", ""))
                    for tid in self.reified.get(shape, ()):
                        self._add(out, f.id, tid, "fnptr")
            elif t["k"] == "drop":
                ty = t.get("ty", "")
                for adt, did in self.drop_impls.items():
                    if adt in ty:
                        self._add(out, f.id, did, "drop")
        return out

    def _bridge(self, out, f, c):
        """a call into a std generic instantiated with workspace types may call back into their
        std-trait impls (Display via format_args!, From via into(), Iterator via adaptors, ...)"""
        gid = c.get("id") or ""
        if not gid.startswith(("core::", "alloc::", "std::", "hashbrown::")):
            return
        for a in (c.get("rargs") or c.get("args") or []):
            key = a
            hit = self._bridge_cache.get(key)
            if hit is None:
                hit = []
                for name in self._adt_names:
                    if name in a:
                        hit.extend(self.std_impls_of_adt.get(name, ()))
                self._bridge_cache[key] = hit
            for iid in hit:
                self._add(out, f.id, iid, "bridge")
            # a bare type parameter formatted through format_args!
            if _is_param(a) and "fmt::rt::Argument" in gid:
                tr = "core::fmt::Display" if "display" in gid else "core::fmt::Debug" if "debug" in gid else None
                for iid in self.fmt_impls.get(tr, ()):  # CHA over the crate scope
                    if self.cha_crates is None or self.F.fns[iid].crate in self.cha_crates:
                        self._add(out, f.id, iid, "bridge")

    def _fn_target(self, out, f, c, kind):
        F = self.F
        rid = c.get("rid")
        gid = c.get("id")
        self._bridge(out, f, c)
        if rid and rid in F.fns and rid != gid:
            self._add(out, f.id, rid, kind)
            return
        if c.get("trait"):
            # unresolved (generic self / dyn) or resolved to the trait's own item: CHA
            sty = c.get("self_ty") or ""
            concrete = _concrete_self(sty)
            for iid in self.impls_of_item.get(gid, ()):  # every impl in the workspace
                g = F.fns[iid]
                if concrete is not None:
                    ist = strip_generics(_unref(g.impl.get("self_ty", "")))
                    if ist != concrete and not _is_param(ist):
                        continue
                elif self.cha_crates is not None and g.crate not in self.cha_crates:
                    continue
                self._add(out, f.id, iid, "cha")
            if gid in F.fns:  # default body
                self._add(out, f.id, gid, "cha")
            return
        if gid in F.fns:
            self._add(out, f.id, gid, kind)

    def registry(self, registry_roots):
        """fns reified to pointers by code reachable (without indirect calls) from the registry roots"""
        r0 = self.reachable(registry_roots, fnptr_allowed=set())
        allowed = set()
        for x in r0:
            allowed |= self.reified_in.get(x, set())
        return allowed

    def reachable(self, roots, stop=None, fnptr_allowed=None):
        seen = {}
        dq = deque()
        for r in roots:
            if r in self.F.fns and r not in seen:
                seen[r] = None
                dq.append(r)
        while dq:
            x = dq.popleft()
            if stop and stop(self.F.fns[x]):
                continue
            for y in sorted(self.edges.get(x, ())):
                if fnptr_allowed is not None and self.why.get((x, y)) == "fnptr" and y not in fnptr_allowed:
                    continue
                if y not in seen:
                    seen[y] = x
                    dq.append(y)
        return seen

    def chain(self, seen, target, limit=12):
        out = []
        x = target
        while x is not None and len(out) < limit:
            out.append(self.F.fns[x].name)
            x = seen.get(x)
        return list(reversed(out))
