"""Fact extraction: run txv-driver over /repo's *current working tree*.

Facts are cached by a content hash of the sources, so every check "rebuilds
from /repo's working tree" (a changed tree => new hash => re-extraction) while
checks run back to back share one extraction.
"""
import fcntl
import hashlib
import json
import os
import shutil
import subprocess
import sys
import time

VERIF = os.path.dirname(os.path.dirname(os.path.abspath(__file__)))
REPO = os.environ.get("TXV_REPO", "/repo")
CACHE = os.path.join(VERIF, ".cache")
DRIVER_DIR = os.path.join(VERIF, "driver")
DRIVER = os.path.join(DRIVER_DIR, "target", "debug", "txv-driver")

SKIP_DIRS = {"target", ".git", "node_modules"}


def tree_hash(repo=REPO):
    """Content hash of every file that can influence the type-checked program."""
    h = hashlib.sha256()
    n = 0
    for root, dirs, files in os.walk(repo):
        dirs[:] = sorted(d for d in dirs if d not in SKIP_DIRS)
        for f in sorted(files):
            if not (f.endswith(".rs") or f.endswith(".toml") or f == "Cargo.lock"):
                continue
            p = os.path.join(root, f)
            try:
                with open(p, "rb") as fh:
                    data = fh.read()
            except OSError:
                continue
            h.update(os.path.relpath(p, repo).encode())
            h.update(b"\0")
            h.update(hashlib.sha256(data).digest())
            n += 1
    # the driver itself is part of the key
    try:
        with open(os.path.join(DRIVER_DIR, "src", "main.rs"), "rb") as fh:
            h.update(hashlib.sha256(fh.read()).digest())
    except OSError:
        pass
    return h.hexdigest()[:20], n


def sysroot():
    return subprocess.check_output(["rustc", "+nightly", "--print", "sysroot"], text=True).strip()


def build_driver():
    env = dict(os.environ, CARGO_NET_OFFLINE="true")
    r = subprocess.run(["cargo", "build", "--offline"], cwd=DRIVER_DIR, env=env,
                       stdout=subprocess.PIPE, stderr=subprocess.STDOUT, text=True)
    if r.returncode != 0 or not os.path.exists(DRIVER):
        sys.stderr.write(r.stdout)
        raise SystemExit(2)


def workspace_targets(repo=REPO):
    env = dict(os.environ, CARGO_NET_OFFLINE="true")
    out = subprocess.check_output(
        ["cargo", "+nightly", "metadata", "--offline", "--no-deps", "--format-version", "1"],
        cwd=repo, env=env, text=True, stderr=subprocess.DEVNULL)
    md = json.loads(out)
    targets = []
    for pkg in md["packages"]:
        for t in pkg["targets"]:
            kinds = set(t["kind"])
            name = t["name"].replace("-", "_")
            if kinds & {"lib", "rlib", "cdylib", "dylib", "proc-macro", "staticlib"}:
                targets.append((pkg["name"], name, "lib"))
            elif "bin" in kinds:
                targets.append((pkg["name"], name, "bin"))
    return targets, [p["name"] for p in md["packages"]]


def ensure_facts(verbose=True):
    """Returns (facts_dir, info). Extracts if the tree changed."""
    os.makedirs(CACHE, exist_ok=True)
    lock = open(os.path.join(CACHE, "lock"), "w")
    fcntl.flock(lock, fcntl.LOCK_EX)
    try:
        return _ensure_facts_locked(verbose)
    finally:
        fcntl.flock(lock, fcntl.LOCK_UN)
        lock.close()


def _ensure_facts_locked(verbose):
    t0 = time.time()
    if not os.path.exists(DRIVER):
        build_driver()
    key, nfiles = tree_hash()
    facts_dir = os.path.join(CACHE, "facts", key)
    done = os.path.join(facts_dir, "DONE.json")
    if os.path.exists(done):
        info = json.load(open(done))
        info["cached"] = True
        return facts_dir, info
    # drop older fact sets (keep disk small)
    froot = os.path.join(CACHE, "facts")
    if os.path.isdir(froot):
        for d in os.listdir(froot):
            shutil.rmtree(os.path.join(froot, d), ignore_errors=True)
    os.makedirs(facts_dir, exist_ok=True)
    target = os.path.join(CACHE, "target")
    targets, packages = workspace_targets()
    # cargo's freshness cache would skip the wrapper: delete member fingerprints
    fp = os.path.join(target, "debug", ".fingerprint")
    if os.path.isdir(fp):
        for d in os.listdir(fp):
            base = d.rsplit("-", 1)[0]
            if base in packages:
                shutil.rmtree(os.path.join(fp, d), ignore_errors=True)
    env = dict(os.environ)
    env.update({
        "LD_LIBRARY_PATH": os.path.join(sysroot(), "lib"),
        "RUSTFLAGS": "-Zmir-opt-level=0 -Awarnings",
        "CARGO_NET_OFFLINE": "true",
        "TXV_FACTS_DIR": facts_dir,
        "RUSTC_WORKSPACE_WRAPPER": DRIVER,
        "CARGO_TARGET_DIR": target,
        "CARGO_INCREMENTAL": "0",
    })
    r = subprocess.run(["cargo", "+nightly", "check", "--workspace", "--offline"],
                       cwd=REPO, env=env, stdout=subprocess.PIPE, stderr=subprocess.STDOUT, text=True)
    if r.returncode != 0:
        sys.stderr.write(r.stdout[-6000:])
        sys.stderr.write("\ntxv: extraction failed: /repo does not type-check under cargo +nightly check\n")
        shutil.rmtree(facts_dir, ignore_errors=True)
        raise SystemExit(2)
    missing = []
    for pkg, name, kind in targets:
        if not os.path.exists(os.path.join(facts_dir, f"{name}.{kind}.json")):
            missing.append(f"{pkg}:{name}.{kind}")
    if missing:
        sys.stderr.write("txv: fact files missing for targets: %s\n" % ", ".join(missing))
        shutil.rmtree(facts_dir, ignore_errors=True)
        raise SystemExit(2)
    info = {
        "key": key,
        "source_files_hashed": nfiles,
        "targets": [f"{n}.{k}" for _, n, k in targets],
        "packages": packages,
        "extract_s": round(time.time() - t0, 1),
        "cached": False,
    }
    json.dump(info, open(done, "w"))
    if verbose:
        sys.stderr.write(f"txv: extracted facts for {len(targets)} targets in {info['extract_s']}s\n")
    return facts_dir, info


if __name__ == "__main__":
    d, info = ensure_facts()
    print(d)
    print(json.dumps(info)[:400])
