"""Shared driver: enumerate reachable potential-panic sites for a property and
discharge each (const / type / guard / size / audited) or report it."""
from collections import Counter

from .callgraph import CallGraph
from .facts import strip_generics, AnchorError
from .pps import enumerate_sites, Discharger, discharge_const, load_audited

_cg_cache = {}


def callgraph(F, cha_crates):
    key = (id(F), tuple(sorted(cha_crates)) if cha_crates is not None else None)
    if key not in _cg_cache:
        _cg_cache[key] = CallGraph(F, cha_crates=cha_crates)
    return _cg_cache[key]


def resolve_roots(F, names):
    out = []
    for n in names:
        c = [f for f in F.fns.values() if strip_generics(f.name) == n]
        if not c:
            raise AnchorError("entry point %s not found" % n)
        out += [f.id for f in c]
    return out


def check_requires(F, cg, req):
    """re-checkable clauses attached to audited entries"""
    kind = req.get("kind")
    if kind == "only_called_from":
        # every direct/CHA/fn-ref caller of `fn` anywhere in the workspace is one of `callers` (name prefixes)
        targets = [f for f in F.fns.values() if strip_generics(f.name) == req["fn"] or (req.get("trait_method") and f.impl and f.impl.get("trait") == req["trait_method"][0] and f.name.endswith("::" + req["trait_method"][1]))]
        if not targets:
            return False, "function %s not found" % req["fn"]
        tids = {t.id for t in targets}
        bad = set()
        for src, dsts in cg.edges.items():
            if src in tids:
                continue
            if dsts & tids:
                nm = strip_generics(F.fns[src].name)
                if F.fns[src].crate.endswith(".bin") and req.get("ignore_bins"):
                    continue
                if not any(nm == c or nm.startswith(c) for c in req["callers"]):
                    bad.add(nm)
        if bad:
            return False, "%s is also called from %s" % (req["fn"], sorted(bad)[:3])
        return True, "only called from %s" % req["callers"]
    return True, None


def run_pps(F, R, rule, entry_names, kinds, cha_crates, registry_names=None, armed=None, crate_scope=None, fn_filter=None,
            floor_fns=1, floor_sites=1, what="", extra_roots=()):
    """armed(fn, site) -> bool: is this (kind, module) triple armed?  Unarmed
    reachable sites are reported as `undecided` (neither passed nor failed)."""
    cg = callgraph(F, cha_crates)
    roots = resolve_roots(F, entry_names) + list(extra_roots)
    allowed = None
    if registry_names:
        allowed = cg.registry(resolve_roots(F, registry_names))
    seen = cg.reachable(roots, fnptr_allowed=allowed)
    audited = load_audited()
    used = set()
    n_fns = 0
    n_sites = 0
    hist = Counter()
    for fid in sorted(seen):
        fn = F.fns[fid]
        if crate_scope is not None and fn.crate not in crate_scope:
            continue
        if fn_filter is not None and not fn_filter(fn):
            continue
        n_fns += 1
        sites = enumerate_sites(fn, kinds)
        if not sites:
            continue
        D = Discharger(F, fn)
        for s in sites:
            n_sites += 1
            inst = s.key
            if armed is not None and not armed(fn, s):
                R.undecided(rule, inst, "reachable %s site outside the armed scope (not triaged)" % s.kind, s.loc)
                hist["undecided"] += 1
                continue
            how = discharge_const(s) or D.cond_rule(s) or D.folded_const_rule(s) or D.split_checked_rule(s) or D.type_rule(s) or D.guard_rule(s) or D.size_rule(s)
            if how:
                R.ok(rule, inst, how, s.loc, how=how.split(":")[0])
                hist[how.split(":")[0]] += 1
                continue
            if inst in audited and (not audited[inst].get("props") or R.pid in audited[inst]["props"]):
                used.add(inst)
                req = audited[inst].get("requires")
                if req:
                    okk, why = check_requires(F, cg, req)
                    if not okk:
                        hist["requires-failed"] += 1
                        R.violation(rule, inst, "the audited invariant for this site no longer holds: %s (site: %s `%s`)" % (why, fn.name, s.snip[:70]), s.loc)
                        continue
                    R.ok(rule, inst, "audited: %s [re-checked: %s]" % (audited[inst]["why"], why), s.loc, how="audited+requires")
                    hist["audited+requires"] += 1
                    continue
                R.ok(rule, inst, "audited: " + audited[inst]["why"], s.loc, how="audited")
                hist["audited"] += 1
                continue
            hist["undischarged"] += 1
            chain = cg.chain(seen, fid, limit=6)
            R.violation(rule, inst, "potential panic (%s %s) in %s `%s` is reachable from %s (%s) and not discharged by any guard, type or audited argument%s" % (
                s.kind, s.what, fn.name, s.snip[:90], entry_names[0], " <- ".join(reversed(chain[-4:])), what), s.loc)
    R.floor(rule, "functions reachable from the entry points", n_fns, floor_fns)
    R.floor(rule, "potential-panic sites examined", n_sites, floor_sites)
    R.extra.setdefault("pps", {})[rule] = {"reachable_fns": len(seen), "fns_in_scope": n_fns, "sites": n_sites, "discharge_histogram": dict(hist),
                                            "call_edges_by_kind": dict(cg.kinds), "kinds": list(kinds),
                                            "registry_size": len(allowed) if allowed is not None else None}
    return seen
