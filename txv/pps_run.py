"""Shared driver: enumerate reachable potential-panic sites for a property and
discharge each (const / type / guard / size / audited) or report it."""
import json
import os
from collections import Counter

from .callgraph import CallGraph
from .facts import strip_generics, AnchorError, callee_name
from .pps import enumerate_sites, Discharger, discharge_const, load_audited

_cg_cache = {}


def callgraph(F, cha_crates):
    key = (id(F), tuple(sorted(cha_crates)) if cha_crates is not None else None)
    if key not in _cg_cache:
        _cg_cache[key] = CallGraph(F, cha_crates=cha_crates)
    return _cg_cache[key]


def resolve_roots(F, names):
    out = []
    for n in names:
        c = [f for f in F.fns.values() if strip_generics(f.name) == n]
        if not c:
            raise AnchorError("entry point %s not found" % n)
        out += [f.id for f in c]
    return out


def _arm_targets(F, fn, D, call_suffix, variant_names):
    """blocks entered only when the result of a call to `call_suffix` is one of `variant_names`
    (match arms on its discriminant, or the matching edge of is_ok/is_err/is_some/is_none on it)"""
    from .facts import callee_name
    from .dataflow import op_place
    out = []
    truth = {"is_ok": ("Ok",), "is_err": ("Err",), "is_some": ("Some",), "is_none": ("None",)}
    for bi, t in fn.calls():
        if not strip_generics(callee_name(t) or "").endswith(call_suffix):
            continue
        r = t["dest"]["l"]
        tainted = D.flow.forward_taint({r})
        for b2, blk in enumerate(fn.blocks):
            tt = blk["t"]
            if tt["k"] == "switch":
                p = op_place(tt["op"])
                for st in blk["s"]:
                    if p is not None and st["k"] == "=" and st["lhs"]["l"] == p["l"] and st["rv"]["k"] == "discr" and st["rv"]["pl"]["l"] in tainted and not st["rv"]["pl"]["p"]:
                        vs = F.enum_variants(st["rv"]["ty"]) or []
                        m = dict((v, bb) for v, bb in tt["ts"])
                        for name, d, vi in vs:
                            if name in variant_names:
                                out.append((b2, m.get(d, tt["else"])))
            if tt["k"] == "call":
                n = strip_generics(callee_name(tt) or "").split("::")[-1]
                if n in truth and tt["args"]:
                    rp = D.defs.resolve_place(tt["args"][0])
                    if rp is not None and rp["l"] in tainted and tt.get("t") is not None:
                        nb = fn.blocks[tt["t"]]["t"]
                        if nb["k"] == "switch":
                            m = dict((v, bb) for v, bb in nb["ts"])
                            true_t = nb["else"] if 0 in m else m.get(1)
                            false_t = m.get(0, nb["else"])
                            positive = any(v in variant_names for v in truth[n])
                            out.append((tt["t"], true_t if positive else false_t))
    return out


def check_requires(F, cg, req, fn=None, site=None, D=None):
    """re-checkable clauses attached to audited entries"""
    kind = req.get("kind")
    if kind == "site_dominated_by_arm":
        # the site is only reached when an earlier call returned the given variant
        arms = _arm_targets(F, fn, D, req["call"], set(req["variants"]))
        for src, tgt in arms:
            if D._edge_dominates(src, tgt, site.bb):
                return True, "dominated by the %s arm of %s" % ("/".join(req["variants"]), req["call"])
        return False, "the site is no longer dominated by the %s arm of a call to %s" % ("/".join(req["variants"]), req["call"])
    if kind == "increments_dominated_by_arm":
        # every increment of the named local happens on the given arm of the given call
        arms = _arm_targets(F, fn, D, req["call"], set(req["variants"]))
        incs = []
        for bi, b in enumerate(fn.blocks):
            for st in b["s"]:
                if st["k"] == "=" and st["rv"]["k"] == "bin" and st["rv"]["op"].startswith("Add"):
                    from .dataflow import op_place
                    pa = op_place(st["rv"]["a"])
                    if pa is not None and not pa["p"] and fn.local_name(pa["l"]) == req["local"]:
                        incs.append(bi)
        if not incs:
            return False, "no increment of `%s` found" % req["local"]
        # equivalent guard: the increment sits under `local < K` for a constant K within the stated bound
        lt_edges = []
        if req.get("or_lt_const") is not None:
            for (cb, true_t, false_t, op, la, ca, lb, cbv) in D._cmp_edges():
                if op == "Lt" and la is not None and fn.local_name(la) == req["local"] and cbv is not None and cbv <= req["or_lt_const"]:
                    lt_edges.append((cb, true_t))
                if op == "Gt" and lb is not None and fn.local_name(lb) == req["local"] and ca is not None and ca <= req["or_lt_const"]:
                    lt_edges.append((cb, true_t))
        arms = list(arms) + lt_edges
        for bi in incs:
            if not any(D._edge_dominates(src, tgt, bi) or tgt == bi for src, tgt in arms):
                return False, "`%s` is incremented at %s outside the %s arm of %s" % (req["local"], fn.loc(fn.blocks[bi]["t"]), "/".join(req["variants"]), req["call"])
        return True, "`%s` only grows on the %s arm of %s" % (req["local"], "/".join(req["variants"]), req["call"])
    if kind == "range_bounds_produced_by":
        # K4 index site: every bound of the range it is indexed with is immediately produced (through copies, `?`, match
        # payloads) by one of the named calls — e.g. byte offsets out of char_indices().nth(..), never a character count
        from .dataflow import op_place
        allowed = set(req["calls"])
        args = site.node.get("args") or []
        if len(args) < 2:
            return False, "not an index call"
        rp = op_place(args[1])
        rd = D.defs.single(rp["l"]) if rp is not None and not rp["p"] else None
        if not (rd and rd[0] == "st" and rd[3]["k"] == "=" and rd[3]["rv"]["k"] == "agg"):
            return False, "the index is not a range literal"

        def producers(o, depth=8, seen=None):
            """set of immediate producers over every definition of the operand"""
            seen = seen if seen is not None else set()
            p = op_place(o)
            if p is None:
                return {"constant"}
            if depth == 0 or p["l"] in seen:
                return {"?"}
            if 1 <= p["l"] <= fn.argc and not D.defs.defs.get(p["l"]):
                return {"argument %s" % (fn.local_name(p["l"]) or p["l"])}
            seen = seen | {p["l"]}
            out = set()
            dl = D.defs.defs.get(p["l"], [])
            if not dl:
                return {"argument %s" % (fn.local_name(p["l"]) or p["l"])} if 1 <= p["l"] <= fn.argc else {"?"}
            for d in dl:
                if d[0] == "call":
                    n = strip_generics(callee_name(d[3]) or "").split("::")[-1]
                    if n in ("branch", "unwrap", "expect", "clone", "into", "from") and d[3]["args"]:
                        out |= producers(d[3]["args"][0], depth - 1, seen)
                    else:
                        out.add(n)
                else:
                    rv = d[3].get("rv", {})
                    if rv.get("k") == "use":
                        out |= producers(rv["op"], depth - 1, seen)
                    else:
                        out.add("?(%s)" % rv.get("k"))
            return out
        prods = set()
        for o in rd[3]["rv"]["ops"]:
            prods |= producers(o)
        bad = sorted(x for x in prods if x not in allowed and x != "constant")
        if bad:
            return False, "a bound of the slicing range is produced by %s, not by %s" % (bad[0], "/".join(sorted(allowed)))
        return True, "range bounds produced by %s" % "/".join(sorted(prods))
    if kind == "operand_from_op":
        # one operand of the asserted operation is itself the result of the named checked operation in the same function
        # (pins an evaluation order such as `a - b + 1`, where `a + 1 - b` can overflow)
        from .dataflow import op_place
        want = req["op"]
        for o in site.node["ops"]:
            p = op_place(o)
            for _ in range(4):
                if p is None:
                    break
                d = D.defs.single(p["l"])
                if d is None or d[0] != "st" or d[3]["k"] != "=":
                    break
                rv = d[3]["rv"]
                if rv["k"] == "use":
                    q = op_place(rv["op"])
                    if q is not None and q["p"] and isinstance(q["p"][0], dict) and q["p"][0].get("f") == 0:
                        dd = D.defs.single(q["l"])
                        if dd and dd[0] == "st" and dd[3]["k"] == "=" and dd[3]["rv"]["k"] == "bin" and dd[3]["rv"]["op"].replace("WithOverflow", "") == want:
                            return True, "an operand is the result of the preceding %s" % want
                        break
                    p = q
                    continue
                if rv["k"] == "bin" and rv["op"].replace("WithOverflow", "") == want:
                    return True, "an operand is the result of the preceding %s" % want
                break
        return False, "no operand of this operation comes from a preceding %s any more (the evaluation order the argument relies on changed)" % want
    if kind == "swapped_buffer_cleared_each_iteration":
        # a candidate is built by pushing into a scratch Vec that is exchanged (mem::swap) with the kept one: every way from a push, round
        # the outermost loop, to a push of a later iteration passes Vec::clear on that Vec — otherwise a candidate is appended to a stale one
        from .dataflow import op_place
        from .cfg import natural_loops, reachable

        def recv_local(t):
            p = op_place(t["args"][0]) if t.get("args") else None
            for _ in range(4):
                if p is None:
                    return None
                if p["p"] and p["p"] != ["*"]:
                    return None
                d = D.defs.single(p["l"])
                if d is None or d[0] != "st" or d[3]["k"] != "=":
                    return p["l"]
                rv = d[3]["rv"]
                if rv["k"] == "ref":
                    p = rv["pl"]
                    if p["p"] == ["*"]:
                        p = {"l": p["l"], "p": []}   # a reborrow
                        continue
                    if p["p"]:
                        return None
                    return p["l"]
                if rv["k"] == "use":
                    p = op_place(rv["op"])
                    continue
                return p["l"]
            return None
        if not any(strip_generics(callee_name(tt) or "") == "core::mem::swap" for _, tt in fn.calls()):
            # the site may sit in a helper that was split off: the candidate loop is then in a caller of the same file
            callers = [F.fns[src] for src, dsts in cg.edges.items() if fn.id in dsts and src in F.fns and F.fns[src].file == fn.file and src != fn.id]
            for g in callers:
                if any(strip_generics(callee_name(tt) or "") == "core::mem::swap" for _, tt in g.calls()):
                    from .pps import Discharger as _Dis
                    return check_requires(F, cg, req, g, site, _Dis(F, g))
        swapped = set()
        for bi, tt in fn.calls():
            if strip_generics(callee_name(tt) or "") == "core::mem::swap":
                for a in tt["args"]:
                    l = recv_local({"args": [a]})
                    if l is not None:
                        swapped.add(l)
        loops = natural_loops(fn)
        n_checked = 0
        for v in sorted(swapped):
            pushes = [bi for bi, tt in fn.calls() if strip_generics(callee_name(tt) or "").endswith("Vec::push") and recv_local(tt) == v]
            # a helper of the same file that is handed `&mut v` and pushes into that parameter pushes into v
            for bi, tt in fn.calls():
                c = tt.get("callee") or {}
                g = None
                for cid in (c.get("rid"), c.get("id")):
                    if cid and cid in F.fns and F.fns[cid].file == fn.file and cid != fn.id:
                        g = F.fns[cid]
                        break
                if g is None:
                    continue
                for ai, a in enumerate(tt.get("args") or []):
                    if recv_local({"args": [a]}) != v or not g.local_ty(ai + 1).startswith("&mut "):
                        continue
                    from .cfg import Defs as _Defs
                    gd = _Defs(g)
                    for gb, gt in g.calls():
                        if strip_generics(callee_name(gt) or "").endswith("Vec::push") and gt.get("args"):
                            gp = gd.resolve_place(gt["args"][0])
                            if gp is not None and gp["l"] == ai + 1:
                                pushes.append(bi)
                                break
            clears = {bi for bi, tt in fn.calls() if strip_generics(callee_name(tt) or "").split("::")[-1] in ("clear", "truncate", "take") and tt.get("args") and recv_local(tt) == v}
            clears |= {bi for bi, b in enumerate(fn.blocks) for st in b["s"] if st["k"] == "=" and not st["lhs"]["p"] and st["lhs"]["l"] == v}
            clears |= {bi for bi, tt in fn.calls() if tt["dest"]["l"] == v and not tt["dest"]["p"]}
            for pb in pushes:
                outer = [(h, body) for h, body in loops if pb in body]
                if not outer:
                    continue
                h, body = max(outer, key=lambda x: len(x[1]))
                n_checked += 1
                # the successor of the push call: the push itself has happened
                start = fn.blocks[pb]["t"].get("t")
                if start is None:
                    continue
                blocked = set(clears) | (set(range(len(fn.blocks))) - set(body))
                r1 = reachable(fn, start, blocked=blocked) if start not in blocked else set()
                if h not in r1:
                    continue
                r2 = reachable(fn, h, blocked=blocked - {h})
                # a push reached again from the header without a clear in between, other than by staying in the same pass
                if any(q in r2 for q in pushes):
                    return False, "`%s` is pushed to at %s and can come round the loop at %s to the next push without being cleared (a candidate would be appended to a stale one)" % (
                        fn.local_name(v) or "_%d" % v, fn.loc(fn.blocks[pb]["t"]), fn.loc(fn.blocks[h]["t"]))
        if not n_checked:
            return False, "no Vec that is both exchanged with mem::swap and pushed to inside a loop was found (the shape the argument relies on is gone)"
        return True, "every swapped scratch Vec is cleared between two iterations that push to it (%d push sites)" % n_checked
    if kind == "only_called_from":
        # every direct/CHA/fn-ref caller of `fn` anywhere in the workspace is one of `callers` (name prefixes)
        targets = [f for f in F.fns.values() if strip_generics(f.name) == req["fn"] or (req.get("trait_method") and f.impl and f.impl.get("trait") == req["trait_method"][0] and f.name.endswith("::" + req["trait_method"][1]))]
        if not targets:
            return False, "function %s not found" % req["fn"]
        tids = {t.id for t in targets}
        bad = set()
        for src, dsts in cg.edges.items():
            if src in tids:
                continue
            if dsts & tids:
                nm = strip_generics(F.fns[src].name)
                if F.fns[src].crate.endswith(".bin") and req.get("ignore_bins"):
                    continue
                if not any(nm == c or nm.startswith(c) for c in req["callers"]):
                    bad.add(nm)
        if bad:
            return False, "%s is also called from %s" % (req["fn"], sorted(bad)[:3])
        return True, "only called from %s" % req["callers"]
    return True, None


def run_pps(F, R, rule, entry_names, kinds, cha_crates, registry_names=None, armed=None, crate_scope=None, fn_filter=None,
            floor_fns=1, floor_sites=1, what="", extra_roots=()):
    """armed(fn, site) -> bool: is this (kind, module) triple armed?  Unarmed
    reachable sites are reported as `undecided` (neither passed nor failed)."""
    cg = callgraph(F, cha_crates)
    roots = resolve_roots(F, entry_names) + list(extra_roots)
    allowed = None
    if registry_names:
        allowed = cg.registry(resolve_roots(F, registry_names))
    seen = cg.reachable(roots, fnptr_allowed=allowed)
    audited = load_audited()
    # per-property view of the table
    view = {}
    for k0, e0 in audited.items():
        if R.pid in e0.get("by_prop", {}):
            v0 = dict(e0["by_prop"][R.pid])
            v0.setdefault("snip", e0.get("snip"))
            view[k0] = v0
        elif e0.get("props") and R.pid not in e0["props"]:
            continue
        elif "why" in e0:
            view[k0] = e0
    used = set()
    n_fns = 0
    n_sites = 0
    hist = Counter()
    from .pps import wide_usize_sources
    Discharger.WIDE_USIZE_SOURCES = wide_usize_sources(F, crate_scope or cha_crates)
    R.assumptions.append("size rule: usize fields/arguments are lengths, indices or numbers below 2^32 — no str::parse/from_str into a 64-bit type and no "
                         "u64/i64 -> usize cast in the crates in scope (checked on this run: %d such sites%s)" % (
                             len(Discharger.WIDE_USIZE_SOURCES), "" if not Discharger.WIDE_USIZE_SOURCES else "; size rule restricted: " + "; ".join(Discharger.WIDE_USIZE_SOURCES[:3])))
    # pass A: enumerate, apply the automatic discharge rules
    work = []   # (fid, fn, D, site) still open after the automatic rules
    for fid in sorted(seen):
        fn = F.fns[fid]
        if crate_scope is not None and fn.crate not in crate_scope:
            continue
        if fn_filter is not None and not fn_filter(fn):
            continue
        n_fns += 1
        sites = enumerate_sites(fn, kinds)
        if not sites:
            continue
        D = Discharger(F, fn)
        for s in sites:
            n_sites += 1
            inst = s.key
            if os.environ.get("TXV_DUMP_SITES"):
                with open(os.environ["TXV_DUMP_SITES"], "a") as fh:
                    fh.write(json.dumps({"property": R.pid, "key": inst, "snip": s.snip, "loc": s.loc}) + "\n")
            if armed is not None and not armed(fn, s):
                R.undecided(rule, inst, "reachable %s site outside the armed scope (not triaged)" % s.kind, s.loc)
                hist["undecided"] += 1
                continue
            how = discharge_const(s) or D.cond_rule(s) or D.folded_const_rule(s) or D.split_checked_rule(s) or D.type_rule(s) or D.guard_rule(s) or D.widened_rule(s) or D.size_rule(s) or D.slice_copy_rule(s) or D.counter_rule(s) or D.dead_arm_rule(s) or D.str_idiom_rule(s)
            if how:
                R.ok(rule, inst, how, s.loc, how=how.split(":")[0])
                hist[how.split(":")[0]] += 1
                continue
            work.append((fid, fn, D, s))
    # pass B: match what is left to table entries (survives moves within a function family and shifted ordinals)
    from .sitematch import Families, match_sites
    fams = Families(F, cg)
    R.families = fams
    site_to_entry = match_sites(fams, [(s.key, s.snip) for _, _, _, s in work], view)
    from .report import load_known
    known_req = {kk[2]: d for kk, d in load_known().items() if kk[0] == R.pid and kk[1] == rule and d.get("status") == "known" and d.get("requires")}
    for fid, fn, D, s in work:
            inst = s.key
            if inst in known_req:
                # a recorded finding that is only the recorded one while its precondition holds (e.g. the order of operations a
                # repair introduced); otherwise it is a different defect at the same site
                okk, why = check_requires(F, cg, known_req[inst]["requires"], fn, s, D)
                if not okk:
                    R.violation(rule, inst + "/precondition", "the recorded finding at this site assumed a precondition that no longer holds: %s (site: %s `%s`)" % (why, fn.name, s.snip[:70]), s.loc)
            ek = site_to_entry.get(inst)
            ent = view.get(ek) if ek is not None else None
            moved_from = ek.split("|", 1)[0] if ek is not None and ek != inst else None
            if ent is not None and ent.get("guards"):
                from .guardfacts import guard_facts, check_guards
                from .sitematch import same_snip
                okk, why = check_guards(ent["guards"], guard_facts(D, fn, s.bb))
                if not okk:
                    if ek == inst and (not ent.get("snip") or same_snip(ent["snip"], s.snip)):
                        # the very site the argument was written for, under weaker guards
                        used.add(inst)
                        hist["guards-failed"] += 1
                        R.violation(rule, inst, "the audited invariant for this site was argued under guards that changed: %s (site: %s `%s`)" % (why, fn.name, s.snip[:70]), s.loc)
                        continue
                    # matched by position or after a move only: the guards do not fit, so this is not the site the entry was written for
                    ent = None
            if ent is not None:
                used.add(inst)
                req = ent.get("requires")
                if req:
                    okk, why = check_requires(F, cg, req, fn, s, D)
                    if not okk:
                        hist["requires-failed"] += 1
                        R.violation(rule, inst, "the audited invariant for this site no longer holds: %s (site: %s `%s`)" % (why, fn.name, s.snip[:70]), s.loc)
                        continue
                    R.ok(rule, inst, "audited: %s [re-checked: %s]" % (ent["why"], why), s.loc, how="audited+requires")
                    hist["audited+requires"] += 1
                    continue
                if os.environ.get("TXV_DUMP_AUDITED"):
                    with open(os.environ["TXV_DUMP_AUDITED"], "a") as fh:
                        fh.write(json.dumps({"property": R.pid, "key": inst, "loc": s.loc, "snippet": s.snip, "function": fn.name, "argument": ent["why"]}) + "\n")
                R.ok(rule, inst, "audited: " + ent["why"] + (" [site moved from %s]" % moved_from if moved_from else ""), s.loc, how="audited")
                hist["audited"] += 1
                continue
            hist["undischarged"] += 1
            chain = cg.chain(seen, fid, limit=6)
            R.violation(rule, inst, "potential panic (%s %s) in %s `%s` is reachable from %s (%s) and not discharged by any guard, type or audited argument%s" % (
                s.kind, s.what, fn.name, s.snip[:90], entry_names[0], " <- ".join(reversed(chain[-4:])), what), s.loc, detail={"snip": s.snip})
    if os.environ.get("TXV_DUMP_USED"):
        with open(os.environ["TXV_DUMP_USED"], "a") as fh:
            for inst in sorted(used):
                fh.write(json.dumps({"property": R.pid, "site": inst, "entry": site_to_entry.get(inst)}) + "\n")
    R.floor(rule, "functions reachable from the entry points", n_fns, floor_fns)
    R.floor(rule, "potential-panic sites examined", n_sites, floor_sites)
    R.extra.setdefault("pps", {})[rule] = {"reachable_fns": len(seen), "fns_in_scope": n_fns, "sites": n_sites, "discharge_histogram": dict(hist),
                                            "call_edges_by_kind": dict(cg.kinds), "kinds": list(kinds),
                                            "registry_size": len(allowed) if allowed is not None else None}
    return seen
