"""Flow-insensitive def-use utilities over one MIR body.

`Flow(fn)` builds, per local, the set of locals/leaves its value may be derived
from (assignment, reference, field of, call result of args).  This is a may-
analysis (over-approximate): used for "does the value of A reach B" questions
where an over-approximation errs on the side the rule states.
"""
from .facts import callee_name, strip_generics


def op_place(o):
    return o.get("cp") or o.get("mv")


def place_locals(p):
    """locals mentioned by a place: base + index locals"""
    out = [p["l"]]
    for e in p["p"]:
        if isinstance(e, dict) and "ix" in e:
            out.append(e["ix"])
    return out


def rv_operands(rv):
    k = rv["k"]
    if k in ("use", "cast", "repeat"):
        return [rv["op"]]
    if k == "bin":
        return [rv["a"], rv["b"]]
    if k == "un":
        return [rv["a"]]
    if k == "agg":
        return list(rv["ops"])
    if k in ("ref", "rawptr", "discr"):
        return [{"cp": rv["pl"]}]
    return []


class Flow:
    def __init__(self, fn):
        self.fn = fn
        # edges: local -> list of (source kind, payload, where)
        #   ('local', l), ('const', cdict), ('field', name) [field read from a local: both],
        #   ('call', callee-name)
        self.src = {}
        self.where = {}
        deref_stores = []
        for bi, b in enumerate(fn.blocks):
            for si, st in enumerate(b["s"]):
                if st["k"] != "=":
                    continue
                dst = st["lhs"]["l"]
                fnames = [e["n"] or str(e["f"]) for e in st["lhs"]["p"] if isinstance(e, dict) and "f" in e]
                if fnames:
                    # field-sensitive: a store to `x.f` feeds later reads of a field named f, not every read through x
                    base = dst
                    dst = ("F", fnames[-1])
                    # through an unnamed temporary pointer (vec!'s box, MaybeUninit writes) also reach what it aliases
                    if st["lhs"]["p"][0] == "*" and not (1 <= base <= fn.argc) and fn.local_name(base) is None:
                        deref_stores.append((base, st, (bi, si)))
                elif st["lhs"]["p"] and st["lhs"]["p"][0] == "*":
                    deref_stores.append((dst, st, (bi, si)))
                for o in rv_operands(st["rv"]):
                    self._add_operand(dst, o, (bi, si))
                if st["rv"]["k"] == "agg" and st["rv"].get("ak") == "adt":
                    self.src.setdefault(dst, []).append(("agg", "%s::%s" % (st["rv"]["adt"], st["rv"]["variant"]), (bi, si)))
                # writes through a reference: `(*_5).x = v` taints _5's pointee; we
                # model it as flowing into the base local too.
            t = b["t"]
            if t["k"] == "call":
                dst = t["dest"]["l"]
                n = callee_name(t)
                self.src.setdefault(dst, []).append(("call", n or "<ptr>", (bi, None)))
                for a in t["args"]:
                    self._add_operand(dst, a, (bi, None))
                if "ptr" in t:
                    self._add_operand(dst, t["ptr"], (bi, None))
        # A store through a pointer also reaches whatever the pointer was
        # derived from (`p = &mut x; *p = v` taints x): may-alias, coarse.
        for dst, st, where in deref_stores:
            roots = {v for k, v in self.origins(dst) if k == "local" and v != dst} | {dst}
            for r in roots:
                for o in rv_operands(st["rv"]):
                    self._add_operand(r, o, where)

    def _add_operand(self, dst, o, where):
        p = op_place(o)
        if p is not None:
            for l in place_locals(p):
                self.src.setdefault(dst, []).append(("local", l, where))
            for e in p["p"]:
                if isinstance(e, dict) and "f" in e:
                    self.src.setdefault(dst, []).append(("field", e["n"] or str(e["f"]), where))
                    self.src.setdefault(dst, []).append(("local", ("F", e["n"] or str(e["f"])), where))
        elif "c" in o:
            self.src.setdefault(dst, []).append(("const", o["c"], where))

    def origins(self, local, restrict_blocks=None):
        """Transitive closure: set of leaves
        ('arg', n) | ('call', name) | ('field', name) | ('const', repr) | ('agg', name) | ('local', l)."""
        seen = set()
        leaves = set()
        stack = [local]
        while stack:
            l = stack.pop()
            if l in seen:
                continue
            seen.add(l)
            if isinstance(l, tuple):
                leaves.add(("fieldstore", l[1]))
            else:
                leaves.add(("local", l))
                if 1 <= l <= self.fn.argc:
                    leaves.add(("arg", l))
            for kind, payload, where in self.src.get(l, []):
                if restrict_blocks is not None and where[0] not in restrict_blocks:
                    continue
                if kind == "local":
                    stack.append(payload)
                elif kind == "const":
                    c = payload
                    if "int" in c:
                        leaves.add(("const", c["int"]))
                    elif "fn" in c:
                        leaves.add(("fnref", c.get("rfn") or c["fn"]))
                    elif "static" in c:
                        leaves.add(("static", c["static"]))
                    else:
                        leaves.add(("const", c.get("text") or c.get("str") or c["ty"]))
                else:
                    leaves.add((kind, payload))
        return leaves

    def operand_origins(self, o, restrict_blocks=None):
        p = op_place(o)
        if p is None:
            c = o.get("c", {})
            if "int" in c:
                return {("const", c["int"])}
            if "fn" in c:
                return {("fnref", c.get("rfn") or c["fn"])}
            if "static" in c:
                return {("static", c["static"])}
            return {("const", c.get("text") or c.get("str") or c.get("ty"))}
        out = set()
        for l in place_locals(p):
            out |= self.origins(l, restrict_blocks)
        for e in p["p"]:
            if isinstance(e, dict) and "f" in e:
                out.add(("field", e["n"] or str(e["f"])))
        return out

    def forward_taint(self, seeds, blocks=None):
        """Locals whose value may derive from `seeds` using only definitions
        located in `blocks` (None = anywhere)."""
        tainted = set(seeds)
        changed = True
        while changed:
            changed = False
            for dst, srcs in self.src.items():
                if dst in tainted:
                    continue
                for kind, payload, where in srcs:
                    if kind != "local":
                        continue
                    if blocks is not None and where[0] not in blocks:
                        continue
                    if payload in tainted:
                        tainted.add(dst)
                        changed = True
                        break
        return tainted


def has_origin(origins, kind, pred):
    for k, v in origins:
        if k == kind and pred(v):
            return True
    return False


def origin_calls(origins):
    return {strip_generics(v) for k, v in origins if k == "call" and v}


def origin_fields(origins):
    return {v for k, v in origins if k == "field"}
