"""C07 — conditionals and \\expandafter."""
from ..cfg import (Defs, dominators, find_path, is_return, natural_loops, err_blocks, sccs, reachable)
from ..dataflow import Flow, op_place, rv_operands
from ..edt import EDT, UNKNOWN, C
from ..facts import callee_name, strip_generics, AnchorError
from .common import callee_generic, callee_ids

MOD = "texlang_stdlib::conditional::"
BK = "texlang_stdlib::conditional::BranchKind"
UNEXP = "texlang::vm::streams::UnexpandedStream"


def _one(F, name):
    c = [f for f in F.fns.values() if strip_generics(f.name) == name]
    if len(c) != 1:
        raise AnchorError("anchor fn %s: %d matches" % (name, len(c)))
    return c[0]


def tag_tests(fn, flow):
    """[(call block, tagname, true_target, false_target)] for `tag == Some(tags.X_tag)`"""
    out = []
    for bi, t in fn.calls():
        n = strip_generics(callee_name(t) or "")
        if not (n.endswith("PartialEq>::eq") or n.endswith("PartialEq::eq")):
            continue
        tags = set()
        for a in t["args"]:
            for k, v in flow.operand_origins(a):
                if k == "field" and v.endswith("_tag"):
                    tags.add(v)
        if len(tags) != 1:
            continue
        nb = fn.blocks[t["t"]]["t"]
        if nb["k"] != "switch":
            raise AnchorError("unrecognised tag-test shape in %s at %s" % (fn.name, fn.loc(t)))
        p = op_place(nb["op"])
        if p is None or p["l"] != t["dest"]["l"]:
            raise AnchorError("unrecognised tag-test shape in %s at %s" % (fn.name, fn.loc(t)))
        m = dict((v, b) for v, b in nb["ts"])
        false_t = m.get(0, nb["else"])
        true_t = nb["else"] if 0 in m else m.get(1)
        out.append((bi, tags.pop(), true_t, false_t))
    return out


def depth_counter(fn, body):
    """local L with `L = L + 1` and `L = L - 1` inside the loop body"""
    inc, dec = {}, {}
    for b in body:
        for st in fn.blocks[b]["s"]:
            if st["k"] == "=" and st["rv"]["k"] == "bin" and st["rv"]["op"] in ("AddWithOverflow", "SubWithOverflow", "Add", "Sub"):
                a, c = st["rv"]["a"], st["rv"]["b"]
                pa = op_place(a)
                if pa is not None and not pa["p"] and c.get("c", {}).get("int") == 1:
                    (inc if st["rv"]["op"].startswith("Add") else dec).setdefault(pa["l"], []).append(b)
    both = [l for l in inc if l in dec]
    return both, inc, dec


def cmp_tests(fn, body, local, op, const):
    """blocks in body testing `local <op> const`: returns [(block, true_target, false_target)]"""
    out = []
    for b in body:
        blk = fn.blocks[b]
        for st in blk["s"]:
            if st["k"] == "=" and st["rv"]["k"] == "bin" and st["rv"]["op"] == op:
                a, c = st["rv"]["a"], st["rv"]["b"]
                pa = op_place(a)
                if pa is None or c.get("c", {}).get("int") != const:
                    continue
                # a may be a copy of local
                src = pa["l"]
                if src != local:
                    d = Defs(fn).single(src)
                    if not d or d[0] != "st" or d[3]["rv"]["k"] != "use":
                        continue
                    q = op_place(d[3]["rv"]["op"])
                    if q is None or q["l"] != local:
                        continue
                t = blk["t"]
                if t["k"] == "switch":
                    p = op_place(t["op"])
                    if p is not None and p["l"] == st["lhs"]["l"]:
                        m = dict((v, bb) for v, bb in t["ts"])
                        out.append((b, t["else"] if 0 in m else m.get(1), m.get(0, t["else"])))
    return out


def r7_1(F, R):
    R.rule("R7.1", "the four token-skipping loops agree on nesting discipline: they read only through UnexpandedStream, count if_tag (+1) and "
                   "fi_tag (-1, leave when negative), honour else_tag/or_tag only at depth 0, and leave the loop no other way")
    names = ["false_case", "if_case_primitive_fn", "or_primitive_fn", "else_primitive_fn"]
    n = 0
    from .common import fn_or_helper

    def has_skip_loop(g):
        return any(g.blocks[b]["t"]["k"] == "call" and (callee_generic(g.blocks[b]["t"]) or "").endswith("TokenStream::next_or_err")
                   for hdr, body in natural_loops(g) for b in body)
    done = set()
    for nm in names:
        fn = _one(F, MOD + nm)
        # the loop may have been extracted into (or shared through) a helper of the same file
        fn = fn_or_helper(F, fn, has_skip_loop) or fn
        if fn.id in done:
            continue
        done.add(fn.id)
        if fn.name != MOD + nm and not strip_generics(fn.name).endswith(nm):
            nm = strip_generics(fn.name).split("::")[-1]
        flow = Flow(fn)
        tests = tag_tests(fn, flow)
        loops = natural_loops(fn)
        # the skip loop = loop containing a next_or_err call
        sk = None
        for hdr, body in loops:
            for b in body:
                t = fn.blocks[b]["t"]
                if t["k"] == "call" and (callee_generic(t) or "").endswith("TokenStream::next_or_err"):
                    sk = (hdr, body)
        if sk is None:
            raise AnchorError("R7.1: skip loop not found in %s" % fn.name)
        hdr, body = sk
        n += 1
        loc = fn.loc(fn.blocks[hdr]["t"])
        inst = nm
        problems = []
        # (a) reads through UnexpandedStream only
        for b in body:
            t = fn.blocks[b]["t"]
            if t["k"] != "call":
                continue
            g = callee_generic(t) or ""
            if g.startswith("texlang::vm::streams::TokenStream::") and g.split("::")[-1] in ("next", "next_or_err", "peek"):
                sty = t["callee"].get("self_ty", "")
                if not sty.startswith(UNEXP):
                    problems.append("reads tokens through %s (expands while skipping) at %s" % (sty or "?", fn.loc(t)))
            if g.endswith("expand_once") or g.endswith("ExpandedStream::next"):
                problems.append("expands while skipping at %s" % fn.loc(t))
        in_loop = [x for x in tests if x[0] in body]
        by_tag = {}
        for x in in_loop:
            by_tag.setdefault(x[1], []).append(x)
        if "if_tag" not in by_tag or "fi_tag" not in by_tag:
            problems.append("does not compare skipped commands with both if_tag and fi_tag (found %s): nested conditionals in skipped text are not tracked" % sorted(by_tag))
        counters, inc, dec = depth_counter(fn, body)
        dom = dominators(fn)
        if not counters:
            problems.append("no nesting counter (+1 on if, -1 on fi) in the loop")
        else:
            L = counters[0]
            for b in inc[L]:
                if not any(tt in dom[b] for (_, tg, tt, _) in in_loop if tg == "if_tag"):
                    problems.append("depth is incremented at %s outside the if_tag branch" % fn.loc(fn.blocks[b]["t"]))
            for b in dec[L]:
                if not any(tt in dom[b] for (_, tg, tt, _) in in_loop if tg == "fi_tag"):
                    problems.append("depth is decremented at %s outside the fi_tag branch" % fn.loc(fn.blocks[b]["t"]))
            for (_, tg, tt, _) in in_loop:
                if tg == "if_tag" and not any(tt in dom[b] for b in inc[L]):
                    problems.append("if_tag branch does not increment depth")
                if tg == "fi_tag" and not any(tt in dom[b] for b in dec[L]):
                    problems.append("fi_tag branch does not decrement depth")
            lt = cmp_tests(fn, body, L, "Lt", 0)
            if not lt:
                problems.append("no `depth < 0` exit test after the fi_tag decrement")
            eq0 = cmp_tests(fn, body, L, "Eq", 0)
            eq0_blocks = {b: (tt, ft) for b, tt, ft in eq0}
            # (c) else/or honoured only at depth 0: from the true target of an else/or test, reach an
            # action (push_branch call / return) without taking the true edge of a depth==0 test
            pushes = {bi for bi, t in fn.calls() if (callee_generic(t) or "") == MOD + "push_branch"}
            for (cb, tg, tt, ft) in in_loop:
                if tg not in ("else_tag", "or_tag"):
                    continue
                # BFS with edge restriction
                seen = set()
                work = [tt]
                hit = None
                while work:
                    b = work.pop()
                    if b in seen or b == hdr or tt not in dom.get(b, ()):
                        continue  # only the region owned by this test (dominated by its true edge)
                    seen.add(b)
                    if b in pushes or is_return(fn, b) or b not in body:
                        hit = b
                        break
                    if b in eq0_blocks:
                        work.append(eq0_blocks[b][1])  # only the depth != 0 edge
                    else:
                        work.extend(fn.succ()[b])
                if hit is not None:
                    problems.append("%s is honoured at nesting depth > 0 (action at %s reachable without `depth == 0`): an \\else/\\or belonging to a nested skipped conditional ends the skip" % (tg, fn.loc(fn.blocks[hit]["t"])))
                # no state change before the depth gate: blocks owned by this test (dominated by its true edge) but not
                # by the true edge of a `depth == 0` test may only compute temporaries
                gated = set()
                for b0, (t0, f0) in eq0_blocks.items():
                    if tt in dom.get(b0, ()) or b0 == tt:
                        gated |= {b for b in body if t0 in dom.get(b, ())}
                for b in body:
                    if tt not in dom.get(b, ()) or b in gated:
                        continue
                    for st in fn.blocks[b]["s"]:
                        if st["k"] == "=" and not st["lhs"]["p"] and fn.local_name(st["lhs"]["l"]) is not None:
                            problems.append("%s changes `%s` at %s before the `depth == 0` test: an \\%s of a nested skipped conditional affects the outer one" % (
                                tg, fn.local_name(st["lhs"]["l"]), fn.loc(st), tg.split("_")[0]))
                    tb = fn.blocks[b]["t"]
                    if tb["k"] == "call" and (callee_generic(tb) or "").startswith(MOD):
                        problems.append("%s calls %s at %s before the `depth == 0` test" % (tg, callee_generic(tb), fn.loc(tb)))
            # (d) no other normal way out of the loop
            allowed_exits = set()
            for b, tt, ft in lt:
                allowed_exits.add(tt)
            allowed_exits |= pushes
            path = find_path(fn, [hdr], lambda b: is_return(fn, b), blocked=allowed_exits | err_blocks(fn))
            if path is not None:
                problems.append("the loop can be left normally without a matching \\fi/\\else/\\or: %s" % [fn.loc(fn.blocks[b]["t"]) for b in path][-3:])
        if problems:
            for pr in problems:
                R.violation("R7.1", inst + "/" + pr.split(" ")[0] + pr.split(" ")[1], "%s: %s" % (fn.name, pr), loc)
        else:
            R.ok("R7.1", inst, "tags tested in loop: %s; counter _%d" % (sorted(by_tag), counters[0]), loc, how="sibling-shape")
    R.floor("R7.1", "skip loops", n, 2)


def _opt_model(variant):
    def m(self, args, t):
        if variant == "None":
            return ("agg", "core::option::Option", [], 0, "None")
        return ("agg", "core::option::Option", [UNKNOWN], 1, "Some")
    return m


def r7_2(F, R):
    R.rule("R7.2", "closer validity table over the popped branch kind (TeX §510 if_limit): \\else valid iff True|Switch, \\or iff Switch, "
                   "\\fi iff any branch; invalid -> recoverable error, valid -> skip/finish (exhaustive: 4 stack tops x 3 closers)")
    want = {
        "else_primitive_fn": {"None": False, "True": True, "Else": False, "Switch": True},
        "or_primitive_fn": {"None": False, "True": False, "Else": False, "Switch": True},
        "fi_primitive_fn": {"None": False, "True": True, "Else": True, "Switch": True},
    }
    kinds = F.enums[BK]
    if [k[0] for k in kinds] != ["True", "Else", "Switch"]:
        raise AnchorError("BranchKind variants changed: %s" % kinds)
    n = 0
    for nm, table in want.items():
        fn = _one(F, MOD + nm)
        for top in ["None"] + [k[0] for k in kinds]:
            ta = {}
            if top != "None":
                ta[BK] = [k[2] for k in kinds if k[0] == top][0]
            e = EDT(F, fn, type_assume=ta, interesting_calls=["TokenStream>::error", "TokenStream::error", "TokenStream::next_or_err"],
                    call_models={MOD + "pop_branch": _opt_model("None" if top == "None" else "Some")})
            paths = e.run()
            errs = set()
            for p in paths:
                has_err = any(ev[0] == "call" and ev[1].endswith("error") for ev in p.events)
                errs.add(has_err)
            n += 1
            inst = "%s/top=%s" % (nm, top)
            loc = "%s:%d" % (fn.file, fn.line)
            if errs == {not table[top]}:
                R.ok("R7.2", inst, "valid" if table[top] else "error", loc, how="edt")
            else:
                R.violation("R7.2", inst, "%s with stack top %s: %s, TeX's if_limit rule says %s" % (
                    nm, top, "mixed/ reports error=%s" % sorted(errs), "valid" if table[top] else "extra-closer error"), loc)
    R.floor("R7.2", "closer cells", n, 12)


def r7_2b(F, R):
    R.rule("R7.2b", "\\ifcase operand table over sign classes: the immediate selection (push Switch, read nothing) happens iff n = 0; n < 0 and n > 0 enter the "
                    "skipping loop (a negative operand can only end in \\else); sound because the operand is only compared with 0 before the loop (checked)")
    fn = _one(F, MOD + "if_case_primitive_fn")
    loc = "%s:%d" % (fn.file, fn.line)
    for n in (-2, -1, 0, 1, 2):
        model = lambda ed, a, t, v=n: ("agg", "core::result::Result", [C(v)], 0, "Ok")
        e = EDT(F, fn, interesting_calls=["push_branch", "TokenStream::next_or_err"], call_models={"texlang::parse::Parsable::parse": model}, max_paths=400)
        try:
            paths = e.run()
        except Exception:
            raise AnchorError("R7.2b: if_case_primitive_fn could not be specialised")
        immediate = set()
        for p in paths:
            names = [ev[1] for ev in p.events if ev[0] == "call"]
            first = names[0] if names else None
            immediate.add(first == "push_branch" and p.end[0] == "return")
        want = {n == 0}
        inst = "ifcase(n%s)" % ("=%d" % n)
        if immediate == want:
            R.ok("R7.2b", inst, "immediate case 0" if n == 0 else "enters the skip loop", loc, how="edt")
        else:
            R.violation("R7.2b", inst, "\\ifcase with operand %d %s; TeX selects case 0 immediately only for 0 and skips otherwise (a negative operand selects \\else)" % (
                n, "selects case 0 immediately" if True in immediate else "does not select case 0"), loc)


def r7_6(F, R):
    from ..cfg import Defs
    from .common import recv_fields
    R.rule("R7.6", "token-buffer pool hygiene (the optimized \\expandafter replays its whole checked-out buffer): every function that returns a buffer to "
                   "Internal.token_buffers clears it first, or else every function that checks one out clears it — one regime, all siblings")
    pushers, poppers = [], []
    for fn in F.fns.values():
        if fn.crate != "texlang.lib":
            continue
        defs = None
        for bi, t in fn.calls():
            n = strip_generics(callee_name(t) or "")
            if n.endswith("BinaryHeap::push") or n.endswith("BinaryHeap::pop"):
                defs = defs or Defs(fn)
                base, fp = recv_fields(fn, defs, t)
                if fp and fp[-1] == "token_buffers":
                    (pushers if n.endswith("push") else poppers).append((fn, bi))
    R.floor("R7.6", "functions returning a buffer to the pool", len(pushers), 3)
    R.floor("R7.6", "functions checking a buffer out", len(poppers), 2)

    def clears(fn):
        return [bi for bi, t in fn.calls() if strip_generics(callee_name(t) or "").endswith("Vec::clear")]
    push_ok = []
    for fn, bi in pushers:
        dom = dominators(fn)
        push_ok.append(any(c in dom[bi] for c in clears(fn)))
    pop_ok = []
    for fn, bi in poppers:
        path = find_path(fn, [fn.blocks[bi]["t"]["t"]], lambda b: is_return(fn, b), blocked=clears(fn)) if fn.blocks[bi]["t"].get("t") is not None else None
        pop_ok.append(path is None)
    if all(push_ok) or all(pop_ok):
        R.ok("R7.6", "pool", "%d returners (%s clear), %d checkouts (%s clear)" % (len(pushers), sum(push_ok), len(poppers), sum(pop_ok)), None, how="sibling")
    else:
        bad = [strip_generics(f.name) for (f, bi), okk in zip(pushers, push_ok) if not okk] + [strip_generics(f.name) for (f, bi), okk in zip(poppers, pop_ok) if not okk]
        R.violation("R7.6", "pool", "neither every return nor every checkout of a token buffer clears it (not clearing: %s): a stale buffer can be handed to a user that "
                    "assumes it is empty, e.g. the optimized \\expandafter replays the stale tokens" % bad, None)


def r7_3(F, R):
    R.rule("R7.3", "branch-stack discipline: every closer pops exactly once on every path; true_case pushes True; if_case/false_case push exactly once on "
                   "every normal exit except the depth<0 exit (matching \\fi consumed); the if-command closure calls evaluate then exactly one of true_case/false_case")
    for nm in ("else_primitive_fn", "or_primitive_fn", "fi_primitive_fn"):
        fn = _one(F, MOD + nm)
        pops = [bi for bi, t in fn.calls() if (callee_generic(t) or "") == MOD + "pop_branch"]
        dom = dominators(fn)
        loc = "%s:%d" % (fn.file, fn.line)
        if len(pops) == 1 and all(pops[0] in dom[b] for b in dom if is_return(fn, b)) and not any(pops[0] in body for _, body in natural_loops(fn)):
            R.ok("R7.3", nm + "/pop-once", None, loc, how="dominator")
        else:
            R.violation("R7.3", nm + "/pop-once", "%s must pop the branch stack exactly once on every path (pop sites: %d)" % (fn.name, len(pops)), loc)
    # true_case
    fn = _one(F, MOD + "true_case")
    pushes = [bi for bi, t in fn.calls() if (callee_generic(t) or "") == MOD + "push_branch"]
    path = find_path(fn, [0], lambda b: is_return(fn, b), blocked=pushes)
    kinds = _pushed_kinds(fn)
    if path is None and kinds == {"True"}:
        R.ok("R7.3", "true_case", "pushes BranchKind::True on every path", "%s:%d" % (fn.file, fn.line), how="must-pass")
    else:
        R.violation("R7.3", "true_case", "true_case must push BranchKind::True on every path (pushed: %s)" % sorted(kinds), "%s:%d" % (fn.file, fn.line))
    # false_case / if_case: normal exits
    for nm, allowed_kinds in (("false_case", {"Else"}), ("if_case_primitive_fn", {"Switch", "Else"})):
        fn = _one(F, MOD + nm)
        pushes = [bi for bi, t in fn.calls() if (callee_generic(t) or "") == MOD + "push_branch"]
        # depth<0 exits
        exits = set()
        for hdr, body in natural_loops(fn):
            counters, inc, dec = depth_counter(fn, body)
            for L in counters:
                for b, tt, ft in cmp_tests(fn, body, L, "Lt", 0):
                    exits.add(tt)
        path = find_path(fn, [0], lambda b: is_return(fn, b), blocked=set(pushes) | exits | err_blocks(fn))
        kinds = _pushed_kinds(fn)
        loc = "%s:%d" % (fn.file, fn.line)
        if path is None and kinds == allowed_kinds:
            R.ok("R7.3", nm, "pushes %s; every other normal exit is the depth<0 exit" % sorted(kinds), loc, how="must-pass")
        elif path is not None:
            R.violation("R7.3", nm + "/exit-without-push", "%s can return normally without pushing a branch and without having consumed the matching \\fi: the later "
                        "\\else/\\fi is reported as unexpected" % fn.name, loc)
        else:
            R.violation("R7.3", nm + "/kinds", "%s pushes branch kinds %s, expected %s" % (fn.name, sorted(kinds), sorted(allowed_kinds)), loc)
        # a push is never followed by another push or by more skipping
        for pb in pushes:
            nxt = fn.blocks[pb]["t"]["t"]
            again = find_path(fn, [nxt], lambda b: b in pushes or any((callee_generic(t2) or "").endswith("next_or_err") for t2 in [fn.blocks[b]["t"]] if t2["k"] == "call"))
            if again is not None:
                R.violation("R7.3", nm + "/push-then-continue", "%s keeps skipping or pushes again after pushing a branch" % fn.name, fn.loc(fn.blocks[pb]["t"]))
    # the closure built by build_if_command
    clo = _primitive_of(F, _one(F, MOD + "Condition::build_if_command"))
    ev = [bi for bi, t in clo.calls() if (callee_generic(t) or "").endswith("Condition::evaluate")]
    tc = [bi for bi, t in clo.calls() if (callee_generic(t) or "") == MOD + "true_case"]
    fc = [bi for bi, t in clo.calls() if (callee_generic(t) or "") == MOD + "false_case"]
    e = EDT(F, clo, interesting_calls=["true_case", "false_case", "Condition::evaluate"])
    paths = e.run()
    ok = bool(ev) and bool(tc) and bool(fc)
    for p in paths:
        if p.end[0] != "return":
            continue
        names = [x[1] for x in p.events if x[0] == "call"]
        if names[:1] != ["Condition::evaluate"]:
            ok = False
        if names.count("true_case") + names.count("false_case") > 1:
            ok = False
    # which edge of the bool goes where: evaluate's payload true -> true_case
    okmap = _bool_arms(clo)
    if ok and okmap:
        R.ok("R7.3", "if-closure", "evaluate, then true => true_case / false => false_case", "%s:%d" % (clo.file, clo.line), how="edt")
    else:
        R.violation("R7.3", "if-closure", "the closure built by build_if_command must evaluate the condition once and call true_case on true, false_case on false", "%s:%d" % (clo.file, clo.line))


def _primitive_of(F, builder):
    """the function a builder hands to BuiltIn::new_expansion / new_execution: a closure defined in it or a (nested) fn item it references"""
    cands = []
    for b in builder.blocks:
        for st in b["s"]:
            if st["k"] != "=":
                continue
            rv = st["rv"]
            if rv["k"] == "agg" and rv.get("ak") == "closure":
                cands.append(rv["closure"])
            for o in ([rv.get("op")] if rv["k"] in ("use", "cast") else []) + (rv.get("ops") or []):
                if o and o.get("c", {}).get("fn"):
                    cands.append(o["c"].get("rfn") or o["c"]["fn"])
        t = b["t"]
        if t["k"] == "call":
            for a in t["args"]:
                if a.get("c", {}).get("fn"):
                    cands.append(a["c"].get("rfn") or a["c"]["fn"])
    out = []
    for c in cands:
        f = F.fns.get(c)
        if f is None:
            m = [g for g in F.fns.values() if strip_generics(g.name) == strip_generics(c) or g.name == c]
            f = m[0] if len(m) == 1 else None
        if f is not None and (f.name.startswith(builder.name + "::") or f.file == builder.file) and f not in out:
            out.append(f)
    # keep the ones with the primitive signature (token, input)
    out = [f for f in out if f.argc == (3 if "{closure" in f.name.split("::")[-1] else 2)]
    if len(out) != 1:
        raise AnchorError("cannot identify the primitive function built by %s (%d candidates)" % (builder.name, len(out)))
    return out[0]


def _bool_arms(fn):
    """switch on a bool whose 0-edge reaches false_case only and 1-edge true_case only"""
    for bi, b in enumerate(fn.blocks):
        t = b["t"]
        if t["k"] != "switch" or t.get("ty") != "bool":
            continue
        m = dict((v, bb) for v, bb in t["ts"])
        f_t = m.get(0, t["else"])
        t_t = t["else"] if 0 in m else m.get(1)

        def first_call(start):
            p = find_path(fn, [start], lambda x: fn.blocks[x]["t"]["k"] == "call" and (callee_generic(fn.blocks[x]["t"]) or "").startswith(MOD))
            return callee_generic(fn.blocks[p[-1]]["t"]) if p else None
        if first_call(f_t) == MOD + "false_case" and first_call(t_t) == MOD + "true_case":
            return True
    return False


def _pushed_kinds(fn):
    kinds = set()
    for b in fn.blocks:
        for st in b["s"]:
            if st["k"] == "=" and st["rv"]["k"] == "agg" and st["rv"].get("adt") == BK:
                kinds.add(st["rv"]["variant"])
    return kinds


def signed_rem_eq_nonzero(fn):
    """`(x % c) == k` / `!= k` with signed x, k != 0: false for negative x."""
    out = []
    rems = {}
    for bi, b in enumerate(fn.blocks):
        for st in b["s"]:
            if st["k"] == "=" and st["rv"]["k"] == "bin" and st["rv"]["op"] == "Rem":
                pa = op_place(st["rv"]["a"])
                ty = fn.local_ty(pa["l"]) if pa is not None and not pa["p"] else st["rv"]["a"].get("c", {}).get("ty", "")
                if ty.startswith("i"):
                    rems[st["lhs"]["l"]] = (bi, st)
    if not rems:
        return out, 0
    defs = Defs(fn)
    for bi, b in enumerate(fn.blocks):
        for st in b["s"]:
            if st["k"] == "=" and st["rv"]["k"] == "bin" and st["rv"]["op"] in ("Eq", "Ne"):
                for x, y in ((st["rv"]["a"], st["rv"]["b"]), (st["rv"]["b"], st["rv"]["a"])):
                    px = op_place(x)
                    k = y.get("c", {}).get("int")
                    if px is None or k is None:
                        continue
                    l = px["l"]
                    if l not in rems:
                        d = defs.single(l)
                        if d and d[0] == "st" and d[3]["rv"]["k"] == "use":
                            q = op_place(d[3]["rv"]["op"])
                            if q is not None:
                                l = q["l"]
                    if l in rems and k != 0:
                        out.append((bi, st, k))
    return out, len(rems)


def r7_4(F, R, tier):
    R.rule("R7.4", "parity pattern: no signed remainder compared by (in)equality with a non-zero constant (`n % 2 == 1` is false for negative odd n); "
                   "required instance: IfOdd::evaluate; workspace-wide in the thorough tier")
    fns = [f for f in F.fns.values() if "texlang_stdlib::conditional::IfOdd" in f.name and f.name.endswith("::evaluate")]
    if len(fns) != 1:
        raise AnchorError("R7.4: IfOdd::evaluate: %d matches" % len(fns))
    scope = fns if tier != "thorough" else [f for f in F.fns.values() if not f.crate.startswith(("texlang_testing", "performance"))]
    nrem = 0
    for fn in scope:
        hits, n = signed_rem_eq_nonzero(fn)
        nrem += n
        for bi, st, k in hits:
            R.violation("R7.4", strip_generics(fn.name), "%s compares a signed remainder with the non-zero constant %d: Rust's `%%` keeps the dividend's sign, so the test "
                        "is false for every negative operand (TeX's \\ifodd is true for -3)" % (fn.name, k), fn.loc(st))
        if n and not hits:
            R.ok("R7.4", strip_generics(fn.name), "%d signed remainder(s), none compared with a non-zero constant" % n, "%s:%d" % (fn.file, fn.line), how="pattern")
    R.floor("R7.4", "signed remainders examined", nrem, 1)


def r7_5(F, R):
    R.rule("R7.5", "each \\expandafter implementation calls expand_once exactly once on every normal path and never inside a loop; every other read goes "
                   "through unexpanded(); every token read is put back (back/push/extend) or is the chain-optimisation's \\expandafter token; "
                   "noexpand_hook_finish reads exactly one unexpanded token")
    for nm in ("expandafter_simple_fn", "expandafter_optimized_fn"):
        fn = _one(F, "texlang_stdlib::expansion::" + nm)
        loc = "%s:%d" % (fn.file, fn.line)
        eo = [bi for bi, t in fn.calls() if (callee_generic(t) or "").endswith("ExpandedStream::expand_once")]
        cyc = set()
        for comp in sccs(fn):
            cyc |= comp
        dom = dominators(fn)
        eb = err_blocks(fn)
        problems = []
        if len(eo) != 1:
            problems.append("expand_once is called at %d sites (must be exactly one)" % len(eo))
        else:
            if eo[0] in cyc:
                problems.append("expand_once is inside a loop: the token would be expanded more than once")
            path = find_path(fn, [0], lambda b: is_return(fn, b), blocked=set(eo) | eb)
            if path is not None:
                problems.append("a normal path skips expand_once")
        # reads
        reads = []
        for bi, t in fn.calls():
            g = callee_generic(t) or ""
            if g.startswith("texlang::vm::streams::TokenStream::") and g.split("::")[-1] in ("next", "next_or_err", "peek"):
                reads.append((bi, t))
                sty = t["callee"].get("self_ty", "")
                if not sty.startswith(UNEXP):
                    problems.append("reads a token through %s instead of the unexpanded stream at %s" % (sty, fn.loc(t)))
        if len(reads) != 2:
            problems.append("reads %d token positions (must be the two after \\expandafter)" % len(reads))
        # conservation: each read result reaches back / Vec::push
        flow = Flow(fn)
        sinks = []
        for bi, t in fn.calls():
            g = callee_generic(t) or ""
            if g.endswith("TokenStream::back") or g.endswith("Vec::push") or g.endswith("ExpansionInput::back"):
                sinks.append((bi, t))
        for bi, t in reads:
            dl = t["dest"]["l"]
            tainted = flow.forward_taint({dl})
            reached = False
            for sb, s in sinks:
                for a in s["args"][1:]:
                    p = op_place(a)
                    if p is not None and p["l"] in tainted:
                        reached = True
            if not reached:
                problems.append("the token read at %s never flows to back()/push(): it is lost" % fn.loc(t))
        # order: the second token goes back BEFORE expand_once, the held-back token(s) AFTER
        if len(eo) == 1:
            before = [sb for sb, s in sinks if sb != eo[0] and eo[0] not in dom[sb] and find_path(fn, [sb], lambda b: b == eo[0]) is not None]
            after = [bi for bi, t in fn.calls() if eo[0] in dom[bi] and bi != eo[0] and ((callee_generic(t) or "").endswith("TokenStream::back") or (callee_generic(t) or "").endswith("::extend"))]
            if not any((callee_generic(fn.blocks[b]["t"]) or "").endswith("back") for b in before):
                problems.append("no back() of the token to expand before expand_once")
            if not after:
                problems.append("held-back tokens are not returned to the input after expand_once")
        # path rule: from the second read, expand_once is reached only through back(<second token>) — a loop exit that
        # skips it (e.g. a bounded look-ahead running out) loses the token that was just read
        if len(eo) == 1 and len(reads) == 2:
            second = max(reads, key=lambda r: fn.line if False else r[1].get("ln", 0))
            sdl = second[1]["dest"]["l"]
            tainted2 = flow.forward_taint({sdl})
            backs2 = []
            for sb, s in sinks:
                g = callee_generic(s) or ""
                if g.endswith("back"):
                    for a in s["args"][1:]:
                        pp = op_place(a)
                        if pp is not None and pp["l"] in tainted2:
                            backs2.append(sb)
            hdrs = [h for h, body in natural_loops(fn) if second[0] in body]
            starts = hdrs or [second[0]]
            path = find_path(fn, starts, lambda b: b == eo[0], blocked=set(backs2) | eb)
            if path is not None:
                problems.append("expand_once can be reached without putting the second token back (path %s): the token after the chain is not the one expanded" % [fn.loc(fn.blocks[b]["t"]) for b in path][-4:])
        if problems:
            for pr in problems:
                R.violation("R7.5", nm + "/" + "-".join(pr.split(" ")[:3]), "%s: %s" % (fn.name, pr), loc)
        else:
            R.ok("R7.5", nm, "1 expand_once outside loops on all normal paths; 2 unexpanded reads, both conserved; back before / restore after", loc, how="path+def-use")
    fn = _one(F, "texlang_stdlib::expansion::noexpand_hook_finish")
    reads = [(bi, t) for bi, t in fn.calls() if (callee_generic(t) or "").startswith("texlang::vm::streams::TokenStream::") and (callee_generic(t) or "").split("::")[-1] in ("next", "next_or_err")]
    cyc = set()
    for comp in sccs(fn):
        cyc |= comp
    if len(reads) == 1 and reads[0][1]["callee"].get("self_ty", "").startswith(UNEXP) and reads[0][0] not in cyc:
        R.ok("R7.5", "noexpand_hook_finish", "reads exactly one unexpanded token", "%s:%d" % (fn.file, fn.line), how="path")
    else:
        R.violation("R7.5", "noexpand_hook_finish", "\\noexpand must take exactly one token from the unexpanded stream", "%s:%d" % (fn.file, fn.line))


def r7_7(F, R):
    from ..cfg import Defs, reachable
    R.rule("R7.7", "control sequences and active characters are looked up alike: every method of command::map::Map that matches on a CommandRef "
                   "reaches a container access (GroupingContainer::get/insert/..., or another Map method) in each of the two arms — an arm that "
                   "answers with a constant makes `\\let`-aliases on active characters invisible to the skip loops (tags) or to execution")
    CREF = "texlang::token::CommandRef"
    n = 0
    for fn in sorted(F.fns.values(), key=lambda f: f.name):
        nm = strip_generics(fn.name)
        if not nm.startswith("texlang::command::map::Map::") or "{closure" in nm:
            continue
        defs = Defs(fn)
        for bi, b in enumerate(fn.blocks):
            t = b["t"]
            if t["k"] != "switch":
                continue
            p = op_place(t["op"])
            d = defs.single(p["l"]) if p is not None and not p["p"] else None
            if not (d and d[0] == "st" and d[3]["k"] == "=" and d[3]["rv"]["k"] == "discr"):
                continue
            pl = d[3]["rv"]["pl"]
            ty = fn.local_ty(pl["l"]).lstrip("&").replace("mut ", "").strip()
            if [e for e in pl["p"] if e != "*"] or not ty.startswith(CREF):
                continue
            variants = {v[2]: v[0] for v in F.enums.get(CREF, [])}
            for val, tgt in t["ts"]:
                if val not in variants:
                    continue
                n += 1
                inst = "%s/%s" % (nm.split("::")[-1], variants[val])
                reach = reachable(fn, tgt)
                acc = [x for x in reach if fn.blocks[x]["t"]["k"] == "call" and (
                    "groupingmap::GroupingContainer" in (callee_name(fn.blocks[x]["t"]) or "") or strip_generics(callee_name(fn.blocks[x]["t"]) or "").startswith("texlang::command::map::Map::"))]
                # accesses reachable only through this arm (not shared with the join after the match are fine too)
                if acc:
                    R.ok("R7.7", inst, "reaches a container access", fn.loc(t), how="reachability")
                else:
                    R.violation("R7.7", inst, "%s answers for CommandRef::%s without looking the command up: aliases defined on %s are ignored" % (
                        fn.name, variants[val], "active characters" if variants[val] == "ActiveCharacter" else "control sequences"), fn.loc(t))
    R.floor("R7.7", "CommandRef arms in command::map::Map", n, 4)


def r7_8(F, R):
    R.rule("R7.8", "\\ifnum / \\ifdim compare the operands themselves: in the evaluate methods of the conditional primitives the values handed to the "
                   "comparison (`cmp`, `<`, `==`, ...) are the parsed operands, with no arithmetic in between (a difference wraps for operands "
                   "of opposite sign: 2147483647 vs -1). The only arithmetic in a condition is \\ifodd's remainder (R7.4)")
    ARITH = ("wrapping_sub", "wrapping_add", "checked_sub", "checked_add", "saturating_sub", "saturating_add", "overflowing_sub", "signum", "abs", "sub", "add", "neg", "wrapping_neg")
    n = 0
    for fn in sorted(F.fns.values(), key=lambda f: f.name):
        nm = strip_generics(fn.name)
        if not (nm.startswith("<texlang_stdlib::conditional::") and nm.endswith("::evaluate")):
            continue
        n += 1
        inst = nm.split("::")[2].split(" ")[0]
        bad = []
        for bi, t in fn.calls():
            cn = strip_generics(callee_name(t) or "")
            if cn.split("::")[-1] in ARITH and ("core::num::" in cn or "core::ops::arith" in cn):
                bad.append((cn.split("::")[-1], fn.loc(t)))
        for b in fn.blocks:
            for st in b["s"]:
                if st["k"] == "=" and st["rv"]["k"] == "bin" and st["rv"]["op"].replace("WithOverflow", "") in ("Sub", "Add", "Mul") \
                        or st["k"] == "=" and st["rv"]["k"] == "un" and st["rv"].get("op") == "Neg":
                    bad.append((st["rv"].get("op"), fn.loc(st)))
        if bad:
            R.violation("R7.8", inst + "/arith", "%s computes with its operands (`%s`) before comparing them: the relation is wrong when the "
                        "intermediate value wraps or saturates" % (fn.name, bad[0][0]), bad[0][1])
        else:
            R.ok("R7.8", inst, "operands compared directly", "%s:%d" % (fn.file, fn.line), how="use-set")
    R.floor("R7.8", "evaluate methods of conditional primitives", n, 3)


def r7_9(F, R):
    from .common import producers
    R.rule("R7.9", "expanding once consumes the expanded token: in stream::expand_once the token that was read (next_unexpanded) is put back on the "
                   "input only on a path that answers Ok(false) — nothing was expanded; on a path that answers Ok(true) (an expansion primitive ran, "
                   "a macro was called, or the \\noexpand override was applied) the token itself never returns to the input, otherwise "
                   "`\\expandafter\\a\\noexpand\\b` leaves `\\noexpand\\b` instead of the non-expandable `\\b` and the token is expanded twice")
    fn = _one(F, "texlang::vm::streams::stream::expand_once")
    D = Defs(fn)
    true_ret = set()
    false_ret = set()
    for bi, b in enumerate(fn.blocks):
        for st in b["s"]:
            if st["k"] == "=" and not st["lhs"]["p"] and st["lhs"]["l"] == 0 and st["rv"]["k"] == "agg" and str(st["rv"].get("variant")) == "Ok":
                from ..pps import const_operand
                o = st["rv"]["ops"][0] if st["rv"]["ops"] else None
                v = const_operand(o) if o is not None else None
                # an answer that is not the literal `false` counts as "expanded"
                (false_ret if v == 0 else true_ret).add(bi)
    if not true_ret or not false_ret:
        raise AnchorError("R7.9: expand_once: Ok(true)/Ok(false) returns not found (%s/%s)" % (sorted(true_ret), sorted(false_ret)))
    n = 0
    for bi, t in fn.calls():
        cn = strip_generics(callee_name(t) or "")
        if cn.split("::")[-1] not in ("push", "back", "extend", "push_back", "insert") or len(t.get("args") or []) < 2:
            continue
        pr = producers(fn, D, t["args"][-1])
        if not any(tag == "call" and name.endswith("next_unexpanded") for tag, name, ty in pr):
            continue
        n += 1
        inst = "expand_once/put-back#%d" % n
        start = t.get("t")
        r = reachable(fn, start) if start is not None else set()
        hit = sorted(r & true_ret)
        if hit:
            R.violation("R7.9", inst, "stream::expand_once puts the token it read back on the input and then answers Ok(true) (%s): the token was reported as "
                        "expanded but is still in the input, so it is expanded again (or `\\noexpand` is applied to a different token)" % fn.loc(fn.blocks[hit[0]]["t"]), fn.loc(t))
        else:
            R.ok("R7.9", inst, "only Ok(false) answers are reachable after the put-back", fn.loc(t), how="path")
    R.floor("R7.9", "put-backs of the read token in expand_once", n, 2)


def run(F, R, tier):
    r7_9(F, R)
    r7_1(F, R)
    r7_7(F, R)
    r7_8(F, R)
    r7_2(F, R)
    r7_2b(F, R)
    r7_6(F, R)
    r7_3(F, R)
    r7_4(F, R, tier)
    r7_5(F, R)
    return ("Static analysis over MIR facts: sibling agreement of the four skip loops on nesting discipline; the closer validity table by "
            "finite-domain specialisation (exhaustive over 4x3 cells) against TeX §510; branch-stack push/pop discipline on all paths; the signed-"
            "remainder parity bug pattern; expand-once/token-conservation shape of both \\expandafter implementations. Operand evaluation of "
            "\\ifnum and equivalence of the two \\expandafter programs are not decided.")
