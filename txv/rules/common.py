"""Helpers shared by the rule modules."""
from ..cfg import Defs, call_matches, normal_exit_avoiding, path_lines, field_path
from ..facts import callee_name, strip_generics

HOOK = "texlang::vm::TexlangState::variable_assignment_scope_hook"
GC = "texcraft_stdext::collections::groupingmap::GroupingContainer"
SCOPE_TY = "texcraft_stdext::collections::groupingmap::Scope"


def callee_generic(t):
    c = t.get("callee")
    return strip_generics(c["fn"]) if c else None


def callee_ids(t):
    """(generic def id, resolved def id)"""
    c = t.get("callee")
    if not c:
        return (None, None)
    return (c["id"], c.get("rid"))


def recv_fields(fn, defs, t, argi=0):
    """Field path of the place the `argi`-th argument of call `t` refers to,
    e.g. ['internal', 'save_stack'] for `(*self).internal.save_stack`, plus the
    base local."""
    if argi >= len(t["args"]):
        return None, None
    p = defs.resolve_place(t["args"][argi])
    if p is None:
        return None, None
    return p["l"], field_path(p)


def ty_is(ty, base):
    """`ty` (string) is `base` possibly with generic args / behind refs."""
    t = ty
    while t.startswith("&"):
        t = t[1:].lstrip()
        if t.startswith("mut "):
            t = t[4:]
        if t.startswith("'"):
            t = t.split(" ", 1)[1] if " " in t else t
    return t == base or t.startswith(base + "<")


def passes_event(F, fn, is_event_call, depth=3, _memo=None, _stack=()):
    """All normal (non-error) paths of `fn` pass a block whose call satisfies
    `is_event_call(t)`, or a call to a workspace function that itself does
    (summaries, inlining bound `depth`).  Returns (bool, offending path|None)."""
    if _memo is None:
        _memo = {}
    if fn.id in _memo:
        return _memo[fn.id]
    ev = set()
    for bi, t in fn.calls():
        if is_event_call(t):
            ev.add(bi)
            continue
        if depth > 0:
            gid, rid = callee_ids(t)
            c = t.get("callee") or {}
            if c.get("trait") and not rid:
                continue  # unresolved trait method: an impl may override the body we can see
            g = F.fns.get(rid) or F.fns.get(gid)
            if g is not None and g.id not in _stack and g.id != fn.id:
                ok, _ = passes_event(F, g, is_event_call, depth - 1, _memo, _stack + (fn.id,))
                if ok:
                    ev.add(bi)
    path = normal_exit_avoiding(fn, ev)
    # a function without any event (e.g. one that only ever returns Err) must not count as "passes the event"
    res = (path is None and bool(ev), path)
    _memo[fn.id] = res
    return res


def fmt_path(fn, path):
    return " -> ".join(path_lines(fn, path)) if path else ""


# ------------------------------------------------------------------ lossless narrowing (shared by C06, C09, C10, C16, C18)

def narrowing_rule(F, R, rule, scope_text, in_scope, floor, audited=None):
    """Every integer `as` cast to a type that cannot hold the whole source range is shown value-preserving: widening / same
    width (all bits kept on purpose) / source range from dominating guards / enum discriminant / digit producer / audited."""
    from ..pps import Discharger, INT_RANGE
    from ..dataflow import op_place
    audited = audited or {}
    R.rule(rule, "no value-changing integer narrowing in %s: every `as` cast to a narrower (or differently signed, smaller-range) integer type is "
                 "dominated by comparisons that keep the source inside the target's range, converts an enum discriminant or a digit that fits, keeps all "
                 "bits on purpose (same-width reinterpretation), or is audited with a reason; a silently truncated value changes what is written, read "
                 "or computed without any error" % scope_text)
    n = 0
    seen_k = {}
    used = set()
    for fn in sorted(F.fns.values(), key=lambda f: f.name):
        if not in_scope(fn) or "::tests::" in fn.name:
            continue
        D = None
        for bi, b in enumerate(fn.blocks):
            if b.get("cleanup"):
                continue
            for st in b["s"]:
                if st["k"] != "=" or st["rv"]["k"] != "cast" or st["rv"].get("ck") != "IntToInt" or st.get("exp"):
                    continue
                sp = op_place(st["rv"]["op"])
                if sp is None or sp["p"] or st["lhs"]["p"]:
                    continue
                sty, dty = fn.local_ty(sp["l"]), fn.local_ty(st["lhs"]["l"])
                if sty not in INT_RANGE or dty not in INT_RANGE:
                    continue
                n += 1
                s, d = INT_RANGE[sty], INT_RANGE[dty]
                k = (strip_generics(fn.name), sty, dty)
                seen_k[k] = seen_k.get(k, -1) + 1
                inst = "%s/%s->%s#%d" % (strip_generics(fn.name), sty, dty, seen_k[k])
                if d[0] <= s[0] and s[1] <= d[1]:
                    R.ok(rule, inst, "widening", fn.loc(st), how="type")
                    continue
                if (s[1] - s[0]) == (d[1] - d[0]):
                    R.ok(rule, inst, "same-width reinterpretation (all bits kept)", fn.loc(st), how="type")
                    continue
                D = D or Discharger(F, fn)
                src = D.src_local(st["rv"]["op"])
                vk = D.vkey(st["rv"]["op"])
                lo, hi = D.range_of(vk, bi) if vk is not None else (None, None)
                if lo is not None and hi is not None and d[0] <= lo and hi <= d[1]:
                    R.ok(rule, inst, "source in [%d, %d] by dominating guards" % (lo, hi), fn.loc(st), how="guard")
                    continue
                # enum discriminant: `x as uN` lowers to discriminant(x) -> isize -> cast
                dd = D.defs.single(src["l"]) if src is not None and not src["p"] else None
                if dd and dd[0] == "st" and dd[3]["k"] == "=" and dd[3]["rv"]["k"] == "discr":
                    pl = dd[3]["rv"]["pl"]
                    ety = fn.local_ty(pl["l"]).lstrip("&").replace("mut ", "").strip() if not [e for e in pl["p"] if e != "*"] else None
                    en = F.enums.get(strip_generics(ety or "")) or F.enums.get(ety or "")
                    if en and all(d[0] <= v[2] <= d[1] for v in en):
                        R.ok(rule, inst, "discriminant of %s (%d variants, all fit %s)" % (ety, len(en), dty), fn.loc(st), how="enum")
                        continue
                # a digit: result of char::to_digit with a constant radix
                pc = D._producer_call(st["rv"]["op"])
                if pc is not None and strip_generics(callee_name(pc) or "").endswith("::to_digit") and len(pc["args"]) == 2:
                    r = D.eval_const(pc["args"][1])
                    if r is not None and r - 1 <= d[1]:
                        R.ok(rule, inst, "digit below the constant radix %d" % r, fn.loc(st), how="digit")
                        continue
                if inst in audited:
                    used.add(inst)
                    R.ok(rule, inst, "audited: " + audited[inst], fn.loc(st), how="audited")
                    continue
                # the cast may have moved between a function and an item nested in it (closure <-> nested fn, renumbered closure): an
                # audited entry of the same parent function with the same types whose own cast is gone stands for it
                all_names = getattr(R, "all_fn_names", None) or set()

                def parent(nm):
                    parts = nm.split("::")
                    while len(parts) > 1 and (parts[-1].startswith("{closure") or "::".join(parts[:-1]) in all_names):
                        parts = parts[:-1]
                    return "::".join(parts)
                me = parent(strip_generics(fn.name))
                alt = [k2 for k2 in audited if k2 not in used and k2.split("/")[-1].split("#")[0] == "%s->%s" % (sty, dty)
                       and parent(k2.rsplit("/", 1)[0]) == me and k2.rsplit("/", 1)[0] not in all_names]
                if len(alt) == 1:
                    used.add(alt[0])
                    R.ok(rule, inst, "audited: %s [entry moved from %s]" % (audited[alt[0]], alt[0].rsplit("/", 1)[0]), fn.loc(st), how="audited")
                    continue
                R.violation(rule, inst, "%s narrows %s to %s with `as` where the source is only known to lie in %s: values outside %s..=%s are silently "
                            "truncated" % (fn.name, sty, dty, "[%s, %s]" % (lo if lo is not None else s[0], hi if hi is not None else s[1]), d[0], d[1]), fn.loc(st))
    R.floor(rule, "integer casts examined", n, floor)
    return n


# ------------------------------------------------------------------ recursion inventory (C09, C10, C18)

def recursion_rule(F, R, rule, what, seen_ids, crates, table, cg=None, name_filter=None):
    """Every recursion cycle (over statically resolved call edges) among the reachable functions is listed in the table with the
    reason its depth is bounded independently of the input length, or it is a finding (stack overflow is an abort, not an error)."""
    R.rule(rule, "no recursion whose depth grows with the length of the input (%s): every cycle of statically resolved calls among the reachable "
                 "functions is audited as bounded (by a documented limit or by a quantity that is itself bounded) or reported — a stack overflow "
                 "aborts the process without any structured error" % what)
    edges = {}
    if cg is not None:
        # whole call graph (class-hierarchy and function-pointer edges included): recursion through trait objects / generics
        ok_ids = {fid for fid in seen_ids if fid in F.fns and F.fns[fid].crate in crates and (name_filter is None or name_filter(F.fns[fid]))}
        for s in ok_ids:
            ds = {d for d in cg.edges.get(s, ()) if d in ok_ids and cg.why.get((s, d)) != "bridge"}
            if ds:
                edges[s] = ds
    else:
      for fid in seen_ids:
        f = F.fns.get(fid)
        if f is None or f.crate not in crates:
            continue
        for bi, t in f.calls():
            c = t.get("callee") or {}
            g = F.fns.get(c.get("rid")) or F.fns.get(c.get("id"))
            if g is not None and g.crate in crates and (not c.get("trait") or c.get("rid")):
                edges.setdefault(f.id, set()).add(g.id)
    import sys
    sys.setrecursionlimit(max(sys.getrecursionlimit(), 20000))
    idx, low, st, on, comps, n = {}, {}, [], set(), [], [0]

    def sc(v):
        idx[v] = low[v] = n[0]
        n[0] += 1
        st.append(v)
        on.add(v)
        for w in sorted(edges.get(v, ())):
            if w not in idx:
                sc(w)
                low[v] = min(low[v], low[w])
            elif w in on:
                low[v] = min(low[v], idx[w])
        if low[v] == idx[v]:
            comp = []
            while True:
                w = st.pop()
                on.discard(w)
                comp.append(w)
                if w == v:
                    break
            if len(comp) > 1 or v in edges.get(v, ()):
                comps.append(comp)
    for v in sorted(edges):
        if v not in idx:
            sc(v)
    k = 0
    for comp in sorted(comps, key=lambda c: sorted(strip_generics(F.fns[x].name) for x in c)):
        names = sorted({strip_generics(F.fns[x].name) for x in comp})
        key = " + ".join(names) if len(names) <= 3 else "%s (+%d more)" % (names[0], len(names) - 1)
        f0 = F.fns[sorted(comp, key=lambda x: strip_generics(F.fns[x].name))[0]]
        loc = "%s:%d" % (f0.file, f0.line)
        k += 1
        ent = table.get(key)
        if ent is not None and ent.get("why"):
            R.ok(rule, "cycle:" + key, "bounded: " + ent["why"], loc, how="audited")
        else:
            R.violation(rule, "cycle:" + key, "recursion cycle %s is reachable and not audited as bounded: if its depth follows the input length the "
                        "process aborts with a stack overflow" % key, loc)
    return k


PASS_THROUGH = {"branch", "unwrap", "expect", "clone", "into", "from", "try_into", "try_from", "get", "new", "new_unchecked", "ok", "copied", "cloned",
                "unwrap_or", "unwrap_or_default", "checked_add", "checked_sub", "saturating_add", "saturating_sub", "wrapping_add", "wrapping_sub",
                "min", "max", "from_residual", "from_output", "map_err", "ok_or", "unwrap_unchecked", "deref", "borrow", "as_ref"}


def producers(fn, D, o, depth=12, seen=None):
    """Immediate producers of the value read by operand `o`, over every definition of every local on the way: copies, casts, arithmetic,
    references, tuple/checked-arithmetic pairs and value-preserving std calls (PASS_THROUGH) are looked through; anything else stops the
    walk and is returned. Items: ("const", None, None) | ("arg", name, None) | ("call", callee, type of its first argument) |
    ("len", None, None) | ("?", what, None). Projections are ignored (the union over the fields of a local is taken)."""
    from ..dataflow import op_place
    seen = seen if seen is not None else set()
    p = op_place(o)
    if p is None:
        return {("const", None, None)}
    l = p["l"]
    if depth == 0:
        return {("?", "depth", None)}
    if l in seen:
        return set()
    seen = seen | {l}
    out = set()
    dl = D.defs.get(l, [])
    # a local whose address is taken mutably can be written through that reference (`helper(&mut k)`): its value is not only what the
    # visible assignments say
    mb = getattr(fn, "_mut_borrowed", None)
    if mb is None:
        mb = {st["rv"]["pl"]["l"] for b in fn.blocks for st in b["s"]
              if st["k"] == "=" and st["rv"]["k"] in ("ref", "rawptr") and st["rv"].get("mut") and not [e for e in st["rv"]["pl"]["p"] if e == "*"]}
        try:
            fn._mut_borrowed = mb
        except AttributeError:
            pass
    if l in mb and not fn.local_ty(l).startswith("&"):
        out.add(("?", "written through a &mut borrow", None))
    if 1 <= l <= fn.argc:
        out.add(("arg", fn.local_name(l) or str(l), None))
    elif not dl:
        out.add(("?", "undefined _%d" % l, None))
    for d in dl:
        if d[0] == "call":
            t = d[3]
            cn = strip_generics(callee_name(t) or "")
            last = cn.split("::")[-1]
            if last in PASS_THROUGH and t.get("args"):
                for a in t["args"]:
                    out |= producers(fn, D, a, depth - 1, seen)
            else:
                a0 = op_place(t["args"][0]) if t.get("args") else None
                out.add(("call", cn, fn.local_ty(a0["l"]) if a0 is not None else None))
        else:
            st = d[3]
            if st["k"] != "=":
                out.add(("?", st["k"], None))
                continue
            rv = st["rv"]
            k = rv["k"]
            if k in ("use", "cast"):
                out |= producers(fn, D, rv["op"], depth - 1, seen)
            elif k == "bin":
                out |= producers(fn, D, rv["a"], depth - 1, seen) | producers(fn, D, rv["b"], depth - 1, seen)
            elif k == "un":
                out |= producers(fn, D, rv["a"], depth - 1, seen)
            elif k in ("ref", "rawptr"):
                out |= producers(fn, D, {"cp": {"l": rv["pl"]["l"], "p": []}}, depth - 1, seen)
            elif k == "agg":
                for a in rv["ops"]:
                    out |= producers(fn, D, a, depth - 1, seen)
            elif k in ("len", "ptrmeta"):
                out.add(("len", None, None))
            else:
                out.add(("?", k, None))
    return out


def same_file_callees(F, fn):
    """functions of the same source file that `fn` calls directly (resolved callees): where a maintainer's extracted helper ends up"""
    out = []
    for bi, t in fn.calls():
        c = t.get("callee") or {}
        for cid in (c.get("rid"), c.get("id")):
            g = F.fns.get(cid) if cid else None
            if g is not None and g.file == fn.file and g.id != fn.id and g not in out:
                out.append(g)
    return out


def fn_or_helper(F, fn, pred):
    """`fn` if it has the shape `pred` looks for, else the same-file helper it calls that has it (one level), else None"""
    if pred(fn):
        return fn
    for g in same_file_callees(F, fn):
        if pred(g):
            return g
    return None
