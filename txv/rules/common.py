"""Helpers shared by the rule modules."""
from ..cfg import Defs, call_matches, normal_exit_avoiding, path_lines, field_path
from ..facts import callee_name, strip_generics

HOOK = "texlang::vm::TexlangState::variable_assignment_scope_hook"
GC = "texcraft_stdext::collections::groupingmap::GroupingContainer"
SCOPE_TY = "texcraft_stdext::collections::groupingmap::Scope"


def callee_generic(t):
    c = t.get("callee")
    return strip_generics(c["fn"]) if c else None


def callee_ids(t):
    """(generic def id, resolved def id)"""
    c = t.get("callee")
    if not c:
        return (None, None)
    return (c["id"], c.get("rid"))


def recv_fields(fn, defs, t, argi=0):
    """Field path of the place the `argi`-th argument of call `t` refers to,
    e.g. ['internal', 'save_stack'] for `(*self).internal.save_stack`, plus the
    base local."""
    if argi >= len(t["args"]):
        return None, None
    p = defs.resolve_place(t["args"][argi])
    if p is None:
        return None, None
    return p["l"], field_path(p)


def ty_is(ty, base):
    """`ty` (string) is `base` possibly with generic args / behind refs."""
    t = ty
    while t.startswith("&"):
        t = t[1:].lstrip()
        if t.startswith("mut "):
            t = t[4:]
        if t.startswith("'"):
            t = t.split(" ", 1)[1] if " " in t else t
    return t == base or t.startswith(base + "<")


def passes_event(F, fn, is_event_call, depth=3, _memo=None, _stack=()):
    """All normal (non-error) paths of `fn` pass a block whose call satisfies
    `is_event_call(t)`, or a call to a workspace function that itself does
    (summaries, inlining bound `depth`).  Returns (bool, offending path|None)."""
    if _memo is None:
        _memo = {}
    if fn.id in _memo:
        return _memo[fn.id]
    ev = set()
    for bi, t in fn.calls():
        if is_event_call(t):
            ev.add(bi)
            continue
        if depth > 0:
            gid, rid = callee_ids(t)
            c = t.get("callee") or {}
            if c.get("trait") and not rid:
                continue  # unresolved trait method: an impl may override the body we can see
            g = F.fns.get(rid) or F.fns.get(gid)
            if g is not None and g.id not in _stack and g.id != fn.id:
                ok, _ = passes_event(F, g, is_event_call, depth - 1, _memo, _stack + (fn.id,))
                if ok:
                    ev.add(bi)
    path = normal_exit_avoiding(fn, ev)
    # a function without any event (e.g. one that only ever returns Err) must not count as "passes the event"
    res = (path is None and bool(ev), path)
    _memo[fn.id] = res
    return res


def fmt_path(fn, path):
    return " -> ".join(path_lines(fn, path)) if path else ""
