"""R16.3 reader totality (complete for deserialize and its callees) and R16.4
overflow sites of Values::update reached from VarRemover."""
from ..pps_run import run_pps

CHA = {"dvi.lib"}


def run(F, R, tier):
    R.rule("R16.3", "dvi::deserialize::deserialize and every callee: every potential-panic site of all four kinds (explicit, unwrap family, assert "
                    "terminators, curated std calls) is discharged — for this function the 'never a panic' clause is decided outright (modulo std-internal panics)")
    run_pps(F, R, "R16.3", ["dvi::deserialize::deserialize"], ("K1", "K2", "K3", "K4"), CHA, crate_scope={"dvi.lib"}, floor_fns=10, floor_sites=4,
            what=": arbitrary bytes must give operations or a documented error")
    R.rule("R16.4", "overflow/bounds sites of Values::update and VarRemover::next (adversarial operands)")
    run_pps(F, R, "R16.4", ["<dvi::transforms::VarRemover as core::iter::traits::iterator::Iterator>::next", "dvi::Values::update"], ("K1", "K2", "K3", "K4"), CHA,
            crate_scope={"dvi.lib"}, fn_filter=lambda fn: "dvi::Values" in fn.name or "VarRemover" in fn.name or "StackValues" in fn.name, floor_fns=3, floor_sites=4, what=": the variable remover must preserve positions for every operand")
