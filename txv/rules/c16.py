"""C16 — DVI: serializer/deserializer opcode tables agree (exhaustive over 256
opcodes x widths x field order); axis agreement of the variable remover."""
from ..edt import EDT, UNKNOWN, C, _short
from ..facts import callee_name, strip_generics, AnchorError
from ..dataflow import op_place

OP = "dvi::Op"
VAR = "dvi::Var"
READS = ["u8", "i8", "u16", "i16", "u24", "i24", "u32", "i32", "string", "string_l", "extension", "font_def"]
READ_KIND = {"u8": (1, "u"), "i8": (1, "s"), "u16": (2, "u"), "i16": (2, "s"), "u24": (3, "u"), "i24": (3, "s"), "u32": (4, "u"), "i32": (4, "s")}
WRITES = ["Writer::u8", "Writer::i32", "Writer::u32", "Writer::u16", "Writer::u32_var", "Writer::i32_var", "Writer::str",
          "Writer::str_len", "Writer::str_content", "Vec::push", "Vec::extend_from_slice", "Iterator::for_each"]
WRITE_KIND = {"Writer::u8": (1, "u"), "Writer::i32": (4, "s"), "Writer::u32": (4, "u"), "Writer::u16": (2, "u")}


def _one(F, name):
    c = [f for f in F.fns.values() if strip_generics(f.name) == name]
    if len(c) != 1:
        raise AnchorError("anchor fn %s: %d matches" % (name, len(c)))
    return c[0]


def _read_model(kind):
    def m(edt, args, t):
        edt._n = getattr(edt, "_n", 0) + 1
        return ("agg", "core::result::Result", [("s", "r%d:%s" % (edt._n, kind), 0)], 0, "Ok")
    return m


def _variant_fields(F, variant):
    a = F.adt(OP)
    for v in a["variants"]:
        if v["name"] == variant:
            return [f["name"] for f in v["fields"]]
    raise AnchorError("Op::%s missing" % variant)


def reader_table(F):
    """opcode -> row dict(variant, consts, items, err)"""
    fn = _one(F, "dvi::deserialize::deserialize")
    best = None
    for bi, b in enumerate(fn.blocks):
        t = b["t"]
        if t["k"] == "switch" and (best is None or len(t["ts"]) > len(best["ts"])):
            best = t
    if best is None or len(best["ts"]) < 50:
        raise AnchorError("R16.1: opcode switch not found in deserialize")
    opl = op_place(best["op"])["l"]
    models = {"dvi::deserialize::Deserializer::" + k: _read_model(k) for k in READS}
    table = {}
    for oc in range(256):
        e = EDT(F, fn, pins={opl: C(oc)}, interesting_calls=["Deserializer::" + k for k in READS], call_models=models,
                record_aggs=[OP, "dvi::InvalidDviData"])
        paths = [p for p in e.run() if p.events]  # the empty-input path has no events
        rows = set()
        for p in paths:
            rows.add(_reader_row(F, p))
        table[oc] = rows
    return table, fn


def _reader_row(F, p):
    reads = []
    variant = None
    consts = {}
    fields_of = {}
    composite = None
    err = None
    for ev in p.events:
        if ev[0] == "call":
            kind = ev[1].split("::")[-1]
            if kind in READ_KIND:
                reads.append(kind)
            elif kind in ("string",):
                reads.append("string")
            elif kind in ("extension", "font_def", "string_l"):
                composite = (kind, ev[2][1] if len(ev[2]) > 1 else None)
                reads.append(kind)
        elif ev[0] == "agg" and ev[1] == OP:
            variant = ev[2]
            names = _variant_fields(F, variant)
            for name, val in zip(names, ev[3]):
                fields_of[name] = val
        elif ev[0] == "agg" and ev[1] == "dvi::InvalidDviData":
            err = ev[2]
    items = []
    # map read ordinal -> field
    ordinal = 0
    for kind in reads:
        ordinal += 1
        sym = "r%d:%s" % (ordinal, kind)
        fld = None
        for name, val in fields_of.items():
            if val == sym:
                fld = name
            elif isinstance(val, tuple) and sym in val:
                fld = "%s[%d]" % (name, val.index(sym))
        if fld is None and composite and composite[1] == sym:
            fld = "len->" + composite[0]
        if kind in READ_KIND:
            items.append(READ_KIND[kind] + (fld,))
        else:
            items.append((kind, fld))
    for name, val in fields_of.items():
        if isinstance(val, int):
            consts[name] = val
        elif isinstance(val, str) and val.startswith("Var::"):
            consts[name] = val[5:].split("(")[0]
    end = p.end[0]
    return (variant, tuple(sorted(consts.items())), tuple(items), err, end)


def _tryinto(edt, args, t):
    return ("agg", "core::result::Result", [args[0] if args else UNKNOWN], None, None)


def _strlen_model(edt, args, t):
    a = args[1] if len(args) > 1 else UNKNOWN
    if a[0] == "ref":
        a = edt.read_place(edt._cur_env, edt._cur_mem, a[1])
    if a[0] == "ref":
        a = edt.read_place(edt._cur_env, edt._cur_mem, a[1])
    if a[0] == "s":
        return ("s", "len:" + a[1], 0)
    return UNKNOWN


def writer_rows(F):
    fn = _one(F, "dvi::serialize::serialize")
    models = {"core::convert::TryInto::try_into": _tryinto, "<T as core::convert::TryInto>::try_into": _tryinto,
              "dvi::serialize::Writer::str_len": _strlen_model}
    rows = []
    for vname, vd, vvi in F.enums[OP]:
        for var in ([None] if vname not in ("Move", "SetVar") else F.enums[VAR]):
            ta = {OP: vvi}
            if var:
                ta[VAR] = var[2]
            e = EDT(F, fn, type_assume=ta, interesting_calls=WRITES, call_models=models, sym_args={1: "op"})
            for p in e.run():
                consts = {}
                if var:
                    consts["0"] = var[0]
                for f in p.forks:
                    d = f[3]
                    if d.startswith("sym:op.%s.move_h" % vname):
                        consts["move_h"] = 0 if f[2] == 0 else 1
                evs = [(ev[1], ev[2]) for ev in p.events if ev[0] == "call"]
                rows.append((vname, consts, evs, p.end, fn.loc(fn.blocks[p.blocks[-1]]["t"])))
    return rows, fn


def var_writer_table(F, name):
    """Writer::u32_var / i32_var: set of (opcode offset k, number of payload bytes pushed)"""
    fn = _one(F, "dvi::serialize::Writer::" + name)
    # bytes appended by anything other than Vec::push (extend_from_slice, extend, resize, ...) have a length this extraction cannot derive
    other = sorted({strip_generics(callee_name(t) or "").split("::")[-1] for bi, t in fn.calls()
                    if strip_generics(callee_name(t) or "").split("::")[-1] in ("extend_from_slice", "extend", "append", "resize", "extend_from_within", "insert", "write", "write_all")})
    if other:
        return None, (fn, other)
    models = {"core::convert::TryInto::try_into": _tryinto, "<T as core::convert::TryInto>::try_into": _tryinto}
    e = EDT(F, fn, interesting_calls=["Vec::push"], call_models=models, sym_args={2: "base", 3: "x"})
    out = set()
    for p in e.run():
        pushes = [ev[2] for ev in p.events if ev[0] == "call"]
        if not pushes:
            out.add(("no-push", 0))
            continue
        first = pushes[0][-1]
        k = None
        if first == "base":
            k = 0
        elif isinstance(first, str) and first.startswith("base+"):
            k = int(first[5:])
        out.add((k, len(pushes) - 1))
    return out, fn


def _strip_ref(x):
    if isinstance(x, str):
        while x.startswith("&"):
            x = x[1:]
        if x.startswith("op."):
            return x.split(".", 2)[2]
    return x


def r16_1(F, R):
    R.rule("R16.1", "serializer and deserializer opcode tables agree: for every writer row (Op variant x Var x move_h x fast/slow path) and every opcode it can "
                    "emit, the reader maps that opcode to the same variant and constants and reads the same widths, signedness and field order; "
                    "opcodes 250-255 are InvalidOpCode; u32_var/i32_var emit offset k with k+1 payload bytes (exhaustive over 256 opcodes)")
    rt, rfn = reader_table(F)
    # reader sanity: every opcode has exactly one non-error shape
    n_cells = 0
    for oc in range(256):
        rows = rt[oc]
        n_cells += 1
        ok_rows = {r for r in rows if r[0] is not None or r[3] is not None or any(i[0] in ("extension", "font_def") for i in r[2])}
        if oc >= 250:
            if {r[3] for r in rows} == {"InvalidOpCode"}:
                R.ok("R16.1", "reader[%d]" % oc, "InvalidOpCode", "%s:%d" % (rfn.file, rfn.line), how="edt")
            else:
                R.violation("R16.1", "reader[%d]" % oc, "opcode %d must be rejected as InvalidOpCode, reader does %s" % (oc, sorted(map(str, rows))), "%s:%d" % (rfn.file, rfn.line))
    R.floor("R16.1", "reader cells", n_cells, 256)
    # var writers
    for name in ("u32_var", "i32_var"):
        tab, wf = var_writer_table(F, name)
        if tab is None:
            wf, other = wf
            R.undecided("R16.1", "Writer::" + name, "Writer::%s appends its payload with %s: the number of bytes per opcode offset is not derivable by "
                        "finite-domain specialisation (no verdict for this helper)" % (name, "/".join(other)), "%s:%d" % (wf.file, wf.line))
            continue
        if tab == {(0, 1), (1, 2), (2, 3), (3, 4)}:
            R.ok("R16.1", "Writer::" + name, "offset k -> k+1 payload bytes, k=0..3", "%s:%d" % (wf.file, wf.line), how="edt")
        else:
            R.violation("R16.1", "Writer::" + name, "Writer::%s emits (opcode offset, payload bytes) = %s; DVI requires offset k with k+1 bytes" % (name, sorted(tab, key=str)), "%s:%d" % (wf.file, wf.line))
    rows, wfn = writer_rows(F)
    seen_variants = set()
    emitted = set()
    n_rows = 0
    for vname, consts, evs, end, loc in rows:
        seen_variants.add(vname)
        n_rows += 1
        inst = "writer:%s%s" % (vname, "".join("/%s=%s" % kv for kv in sorted(consts.items())))
        if not evs:
            R.violation("R16.1", inst + "/empty", "serialize writes nothing for Op::%s" % vname, loc)
            continue
        name0, args0 = evs[0]
        rest = evs[1:]
        # opcode set and first item
        cases = []  # (opcode, first_items)
        a_last = args0[-1]
        if name0 in ("Writer::u8", "Vec::push") and isinstance(a_last, int):
            cases.append((a_last, []))
        elif name0 == "Writer::u8" and isinstance(a_last, str):
            # fast path: opcode = field + off
            s = a_last
            off = 0
            if "+" in s:
                s, o = s.rsplit("+", 1)
                off = int(o)
            fld = _strip_ref(s)
            # all reader opcodes that build this variant with a constant for that field and no reads
            for oc in range(250):
                for r in rt[oc]:
                    if r[0] == vname and not r[2] and dict(r[1]).get(fld) is not None and isinstance(dict(r[1]).get(fld), int):
                        cases.append((oc, [("fast", fld, off)]))
            if not cases:
                R.violation("R16.1", inst + "/fast", "the fast path of Op::%s emits opcode = %s%+d but the reader has no such immediate form" % (vname, fld, off), loc)
                continue
        elif name0 in ("Writer::u32_var", "Writer::i32_var"):
            base = args0[1] if len(args0) > 2 else args0[0]
            fld = _strip_ref(args0[-1])
            if not isinstance(base, int):
                R.violation("R16.1", inst + "/base", "variable-width write with a non-constant opcode base", loc)
                continue
            for k in range(4):
                cases.append((base + k, [(k + 1, "u" if name0.endswith("u32_var") else "s", fld)]))
        else:
            R.violation("R16.1", inst + "/first", "serialize for Op::%s does not start with an opcode byte (first write: %s)" % (vname, name0), loc)
            continue
        # remaining items
        items = []
        for nm, args in rest:
            fld = _strip_ref(args[-1]) if args else None
            if nm in WRITE_KIND:
                if isinstance(args[-1], int):
                    items.append(WRITE_KIND[nm] + ("const:%d" % args[-1],))
                else:
                    items.append(WRITE_KIND[nm] + (fld,))
            elif nm == "Writer::str":
                items.append(("string", fld))
            elif nm == "Writer::str_len":
                items.append((1, "u", "len:" + str(fld)))
            elif nm == "Writer::str_content":
                s_f = _strip_ref(args[1]) if len(args) > 1 else None
                l_f = _strip_ref(args[2]) if len(args) > 2 else None
                items.append(("bytes", s_f, l_f))
            elif nm == "Vec::extend_from_slice":
                items.append(("bytes", None, None))
            elif nm == "Iterator::for_each":
                items.append(("foreach",))
        for oc, first in cases:
            emitted.add(oc)
            cinst = "%s->op%d" % (inst, oc)
            rrows = rt.get(oc, set())
            match = None
            why = None
            for r in rrows:
                ok, why = _agree(vname, consts, first, items, r, oc, end)
                if ok:
                    match = r
                    break
            if match is not None:
                R.ok("R16.1", cinst, "reader row %s" % (match[:3],), loc, how="table-agreement")
            else:
                R.violation("R16.1", cinst, "Op::%s %s is written with opcode %d followed by %s, but the reader on opcode %d does %s (%s): "
                            "the bytes do not decode to the operation that was encoded" % (vname, consts, oc, first + items, oc, sorted(map(str, rrows)), why), loc)
    missing = {v[0] for v in F.enums[OP]} - seen_variants
    for v in sorted(missing):
        R.violation("R16.1", "writer:%s/missing" % v, "serialize has no row for Op::%s" % v, "%s:%d" % (wfn.file, wfn.line))
    R.floor("R16.1", "writer rows", n_rows, 25)
    # every valid opcode is produced by some writer row (round trip is onto the reader's domain)
    unemitted = [oc for oc in range(250) if oc not in emitted]
    R.extra["opcodes_never_emitted_by_writer"] = unemitted
    R.extra["exhaustive"] = True


def _agree(vname, consts, first, items, r, oc, end):
    rvariant, rconsts, ritems, rerr, rend = r
    rconsts = dict(rconsts)
    ritems = list(ritems)
    if rerr is not None:
        return False, "reader rejects the opcode"
    # composite rows: Extension / DefineFont are built inside callees
    if vname == "Extension":
        w = list(first) + list(items)
        # length item (width, signedness) then the payload bytes
        if (len(ritems) == 2 and ritems[1][0] == "extension" and ritems[0][2] == "len->extension" and len(w) >= 2
                and isinstance(w[0][0], int) and tuple(w[0][:2]) == tuple(ritems[0][:2]) and w[1][0] == "bytes"):
            return True, None
        return False, "extension payload shape differs"
    if vname == "DefineFont":
        want_first = first[0] if first else None
        if not (len(ritems) == 2 and ritems[1][0] == "font_def" and ritems[0][:2] == (want_first[0], want_first[1]) and ritems[0][2] == "len->font_def"):
            return False, "font number width differs"
        return True, "font_def body checked separately"
    if rvariant != vname:
        return False, "variant differs"
    for k, v in consts.items():
        if k == "move_h":
            if rconsts.get("move_h") != v:
                return False, "move_h differs"
        elif k == "0":
            if rconsts.get("0") != v:
                return False, "variable differs"
    if first and first[0][0] == "fast":
        _, fld, off = first[0]
        if rconsts.get(fld) != oc - off:
            return False, "immediate value differs: writer opcode-%d, reader %s" % (off, rconsts.get(fld))
        if ritems:
            return False, "reader reads operands for an immediate opcode"
        if "move_h" in rconsts and consts.get("move_h", 1) != rconsts["move_h"]:
            return False, "move_h differs"
        return True, None
    w = list(first) + list(items)
    # EndPostamble trailing 223 padding loop
    if vname == "EndPostamble":
        w = [i for i in w if not (len(i) == 3 and str(i[2]).startswith("const:223"))]
    if vname == "BeginPage":
        # for_each over parameters = 10 x i32
        out = []
        for i in w:
            if i == ("foreach",):
                out.extend([(4, "s", "parameters[%d]" % j) for j in range(10)])
            else:
                out.append(i)
        w = out
    if len(w) != len(ritems):
        return False, "operand count differs (%d written, %d read)" % (len(w), len(ritems))
    for a, b in zip(w, ritems):
        if a[0] == "string":
            if not (b[0] == "string" and b[1] == a[1]):
                return False, "string field differs"
            continue
        if tuple(a[:2]) != tuple(b[:2]):
            return False, "width/sign differs: wrote %s, reads %s" % (a[:2], b[:2])
        if str(a[2]).startswith("const:"):
            continue
        if a[2] != b[2]:
            return False, "field order differs: wrote %s, read feeds %s" % (a[2], b[2])
    return True, None


def r16_1b(F, R):
    R.rule("R16.1b", "helper tables: each Deserializer::{u8..i32} takes exactly the bytes its name says; font_def and Writer::str agree with "
                     "the DefineFont / string layout (c[4] s[4] d[4] a[1] l[1] n[a+l]; len[1] bytes[len])")
    for kind, (w, sg) in READ_KIND.items():
        fn = _one(F, "dvi::deserialize::Deserializer::" + kind)
        ns = set()
        sign = None
        for bi, t in fn.calls():
            c = t.get("callee", {})
            g = strip_generics(c.get("fn", ""))
            if g == "dvi::deserialize::Deserializer::get":
                ns.add(c["args"][-1])
            if g.endswith("from_be_bytes"):
                sign = c.get("rfn") or c["fn"]
        want_n = "%d_usize" % w
        ok = ns == {want_n} or ns == {str(w)} or any(a.startswith(str(w)) for a in ns)
        sign_ok = sign is not None and (("<impl i" in sign) == (sg == "s") or kind in ("u24", "i24"))
        if ok and len(ns) == 1 and sign_ok:
            R.ok("R16.1b", "Deserializer::" + kind, "get::<%s>, %s" % (sorted(ns), sign), "%s:%d" % (fn.file, fn.line), how="callee-args")
        else:
            R.violation("R16.1b", "Deserializer::" + kind, "Deserializer::%s takes %s bytes via %s; its name promises %d %s bytes" % (kind, sorted(ns), sign, w, "signed" if sg == "s" else "unsigned"), "%s:%d" % (fn.file, fn.line))
    # font_def
    fn = _one(F, "dvi::deserialize::Deserializer::font_def")
    models = {"dvi::deserialize::Deserializer::" + k: _read_model(k) for k in READS}
    e = EDT(F, fn, interesting_calls=["Deserializer::" + k for k in READS], call_models=models, record_aggs=[OP], sym_args={2: "number"})
    rows = {_reader_row(F, p) for p in e.run() if p.end[0] == "return"}
    want_items = ((4, "u", "checksum"), (4, "u", "at_size"), (4, "u", "design_size"), (1, "u", None), (1, "u", None), ("string_l", "area"), ("string_l", "name"))
    okk = False
    detail = None
    for r in rows:
        got_items = tuple((i[0], i[1], None) if (len(i) == 3 and i[0] == 1) else i for i in r[2])
        if r[0] == "DefineFont" and got_items == want_items:
            okk = True
        detail = r
    # the two string_l calls take the two lengths in order
    seq = []
    for p in e.paths:
        if p.end[0] != "return":
            continue
        seq = [(ev[1].split("::")[-1], ev[2]) for ev in p.events if ev[0] == "call"]
    lens_ok = len(seq) == 7 and seq[5][1][-1] == "r4:u8" and seq[6][1][-1] == "r5:u8"
    if okk and lens_ok:
        R.ok("R16.1b", "Deserializer::font_def", "c s d a l area[a] name[l]", "%s:%d" % (fn.file, fn.line), how="edt")
    else:
        R.violation("R16.1b", "Deserializer::font_def", "font_def reads %s (string lengths %s); DVI fnt_def is c[4] s[4] d[4] a[1] l[1] n[a+l] with area first" % (detail, [s[1] for s in seq[5:]]), "%s:%d" % (fn.file, fn.line))
    # writer side of DefineFont: lengths then contents, same order
    rows, wfn = writer_rows(F)
    for vname, consts, evs, end, loc in rows:
        if vname != "DefineFont":
            continue
        tail = [(n, tuple(_strip_ref(a) for a in args)) for n, args in evs[1:]]
        want = [("Writer::u32", "checksum"), ("Writer::u32", "at_size"), ("Writer::u32", "design_size"), ("Writer::str_len", "area"), ("Writer::str_len", "name"),
                ("Writer::str_content", "area", "len:op.DefineFont.area"), ("Writer::str_content", "name", "len:op.DefineFont.name")]
        got = []
        for n, args in tail:
            if n == "Writer::str_content":
                got.append((n, args[1], args[2]))
            else:
                got.append((n, args[-1]))
        if got == want:
            R.ok("R16.1b", "writer:DefineFont/body", "c s d len(a) len(n) a n", loc, how="edt")
        else:
            R.violation("R16.1b", "writer:DefineFont/body", "DefineFont body is written as %s, the reader expects %s" % (got, want), loc)
    # Writer::str = str_len then str_content of the same string
    fn = _one(F, "dvi::serialize::Writer::str")
    e = EDT(F, fn, interesting_calls=["Writer::str_len", "Writer::str_content"], sym_args={2: "s"})
    seqs = {tuple(ev[1] for ev in p.events if ev[0] == "call") for p in e.run()}
    if seqs == {("Writer::str_len", "Writer::str_content")}:
        R.ok("R16.1b", "Writer::str", "length byte then content", "%s:%d" % (fn.file, fn.line), how="edt")
    else:
        R.violation("R16.1b", "Writer::str", "Writer::str must write the length byte and then the content: %s" % sorted(seqs), "%s:%d" % (fn.file, fn.line))
    fn = _one(F, "dvi::deserialize::Deserializer::string")
    e = EDT(F, fn, interesting_calls=["Deserializer::u8", "Deserializer::string_l"], call_models={"dvi::deserialize::Deserializer::u8": _read_model("u8")})
    seqs = {tuple((ev[1].split("::")[-1], ev[2][-1]) for ev in p.events if ev[0] == "call") for p in e.run()}
    if seqs == {(("u8", "&(*_1)"), ("string_l", "r1:u8"))} or all(len(s) == 2 and s[0][0] == "u8" and s[1] == ("string_l", "r1:u8") for s in seqs):
        R.ok("R16.1b", "Deserializer::string", "length byte then that many bytes", "%s:%d" % (fn.file, fn.line), how="edt")
    else:
        R.violation("R16.1b", "Deserializer::string", "Deserializer::string must read a length byte and then exactly that many bytes: %s" % sorted(seqs), "%s:%d" % (fn.file, fn.line))


def r16_2(F, R):
    R.rule("R16.2", "axis agreement: Var -> {h, v} in Values::update (Move, SetVar) and Var -> {Right, Down} in VarRemover::next are the same "
                    "partition (W,X horizontal | Y,Z vertical); VarRemover passes every other operation through unchanged")
    upd = _one(F, "dvi::Values::update")
    nxt = _one(F, "<dvi::transforms::VarRemover as core::iter::traits::iterator::Iterator>::next")
    want = {"W": "h", "X": "h", "Y": "v", "Z": "v"}
    ops = {v[0]: v[2] for v in F.enums[OP]}
    # private helpers of the dvi crate that update() may delegate the move to (one level of inlining, same type assumptions)
    helpers = {}
    for bi, t in upd.calls():
        c = t.get("callee") or {}
        g = F.fns.get(c.get("rid")) or F.fns.get(c.get("id"))
        if g is not None and g.crate == "dvi.lib" and g.id != upd.id:
            helpers[strip_generics(g.name).split("::", 1)[-1]] = g

    def helper_axes(g, assume):
        out = set()
        for p in EDT(F, g, type_assume=assume, interesting_fields=["h", "v"]).run():
            for ev in p.events:
                if ev[0] == "store" and ev[1].split(".")[-1] in ("h", "v"):
                    out.add(ev[1].split(".")[-1])
        return out
    for opname in ("Move", "SetVar"):
        for vname, vd, vvi in F.enums[VAR]:
            assume = {OP: ops[opname], VAR: vvi}
            e = EDT(F, upd, type_assume=assume, interesting_fields=["h", "v"], interesting_calls=sorted(helpers))
            axes = set()
            for p in e.run():
                for ev in p.events:
                    if ev[0] == "store" and ev[1].split(".")[-1] in ("h", "v"):
                        axes.add(ev[1].split(".")[-1])
                    if ev[0] == "call" and ev[1] in helpers:
                        axes |= helper_axes(helpers[ev[1]], assume)
            inst = "update/%s(%s)" % (opname, vname)
            if axes == {want[vname]}:
                R.ok("R16.2", inst, "moves %s" % sorted(axes), "%s:%d" % (upd.file, upd.line), how="edt")
            else:
                R.violation("R16.2", inst, "Values::update on %s(Var::%s) changes %s; DVI's %s moves %s" % (opname, vname, sorted(axes) or "nothing", vname.lower(), want[vname]), "%s:%d" % (upd.file, upd.line))
    for opname in ("Move", "SetVar"):
        for vname, vd, vvi in F.enums[VAR]:
            e = EDT(F, nxt, type_assume={OP: ops[opname], VAR: vvi}, record_aggs=[OP], interesting_calls=["Values::update", "Values::var"],
                    call_models={"core::iter::traits::iterator::Iterator::next": lambda ed, a, t: ("agg", "core::option::Option", [UNKNOWN], 1, "Some"),
                                 "<I as core::iter::traits::iterator::Iterator>::next": lambda ed, a, t: ("agg", "core::option::Option", [UNKNOWN], 1, "Some")})
            built = set()
            updated = True
            for p in e.run():
                if p.end[0] != "return":
                    continue
                ags = [ev[2] for ev in p.events if ev[0] == "agg" and ev[1] == OP]
                if ags:
                    built.add(ags[-1])
                if not any(ev[0] == "call" and ev[1] == "Values::update" for ev in p.events):
                    updated = False
            wantop = "Right" if want[vname] == "h" else "Down"
            inst = "VarRemover/%s(%s)" % (opname, vname)
            if built == {wantop} and updated:
                R.ok("R16.2", inst, wantop, "%s:%d" % (nxt.file, nxt.line), how="edt")
            else:
                R.violation("R16.2", inst, "VarRemover rewrites %s(Var::%s) to %s (update called: %s); it must become Op::%s" % (opname, vname, sorted(built) or "nothing", updated, wantop), "%s:%d" % (nxt.file, nxt.line))
    # pass-through of the other variants: no Op aggregate is built, the input op is moved to the output
    for vname, vd, vvi in F.enums[OP]:
        if vname in ("Move", "SetVar"):
            continue
        e = EDT(F, nxt, type_assume={OP: vvi}, record_aggs=[OP], interesting_calls=["Values::update"],
                call_models={"core::iter::traits::iterator::Iterator::next": lambda ed, a, t: ("agg", "core::option::Option", [UNKNOWN], 1, "Some"),
                             "<I as core::iter::traits::iterator::Iterator>::next": lambda ed, a, t: ("agg", "core::option::Option", [UNKNOWN], 1, "Some")})
        built = set()
        updated = True
        for p in e.run():
            if p.end[0] != "return":
                continue
            built |= {ev[2] for ev in p.events if ev[0] == "agg" and ev[1] == OP}
            if not any(ev[0] == "call" and ev[1] == "Values::update" for ev in p.events):
                updated = False
        inst = "VarRemover/pass(%s)" % vname
        if not built and updated:
            R.ok("R16.2", inst, "passed through, values updated", "%s:%d" % (nxt.file, nxt.line), how="edt")
        else:
            R.violation("R16.2", inst, "VarRemover must pass Op::%s through unchanged after updating the values (rebuilds %s, update called: %s)" % (vname, sorted(built), updated), "%s:%d" % (nxt.file, nxt.line))


def r16_5(F, R):
    from .common import narrowing_rule
    narrowing_rule(F, R, "R16.5", "the DVI codec (dvi::serialize / dvi::deserialize)",
                   lambda fn: fn.crate == "dvi.lib" and (fn.file.endswith("dvi/src/serialize.rs") or fn.file.endswith("dvi/src/deserialize.rs")), 5)


def r16_6(F, R):
    from ..cfg import Defs, find_path, is_return, field_path
    R.rule("R16.6", "unbalanced pop: in Values::update the result of `tail.pop()` is tested, and on the empty-stack (None) arm the function returns without "
                    "writing the tracked values (`self.top`); substituting a default frame would zero h,v,w,x,y,z, so VarRemover would rewrite later "
                    "w/x/y/z moves with the wrong distance")
    fn = _one(F, "dvi::Values::update")
    defs = Defs(fn)
    pops = [(bi, t) for bi, t in fn.calls() if strip_generics(callee_name(t) or "").endswith("Vec::pop")]
    if len(pops) != 1:
        raise AnchorError("R16.6: %d Vec::pop calls in Values::update" % len(pops))
    bi, t = pops[0]
    res = t["dest"]["l"] if isinstance(t.get("dest"), dict) else None
    # the block(s) switching on discriminant(result)
    none_targets = []
    for b2i, b2 in enumerate(fn.blocks):
        t2 = b2["t"]
        if t2["k"] != "switch":
            continue
        p = op_place(t2["op"])
        d = defs.single(p["l"]) if p is not None and not p["p"] else None
        if d and d[0] == "st" and d[3]["k"] == "=" and d[3]["rv"]["k"] == "discr" and d[3]["rv"]["pl"]["l"] == res and not d[3]["rv"]["pl"]["p"]:
            m = dict(t2["ts"])
            none_targets.append(m.get(0, t2["else"]) if 1 in m else m.get(0))
    loc = fn.loc(t)
    if not none_targets or None in none_targets:
        # where does the result go instead?
        users = [strip_generics(callee_name(c) or "").split("::")[-1] for _, c in fn.calls() if any((op_place(a) or {}).get("l") == res for a in c["args"])]
        R.violation("R16.6", "Values::update/pop", "the result of `tail.pop()` is not tested for the empty stack (it flows to %s): a surplus pop replaces the "
                    "tracked values instead of being ignored" % (users or "no test"), loc)
        return

    def writes_top(b):
        for st in fn.blocks[b]["s"]:
            if st["k"] == "=" and "top" in (field_path(st["lhs"]) or []):
                return True
        return False
    bad = find_path(fn, none_targets, writes_top)
    if bad:
        R.violation("R16.6", "Values::update/pop", "on the empty-stack arm of `tail.pop()` the tracked values are written before returning", fn.loc(fn.blocks[bad[-1]]["t"]))
    else:
        R.ok("R16.6", "Values::update/pop", "None arm returns without touching self.top", loc, how="path")
    # the converse (R16.10): on the Some arm the popped frame replaces self.top on *every* path — the frame holds h, v, w, x, y, z and the
    # character positions; restoring it only when some of them differ leaves the others at the inner group's values
    R.rule("R16.10", "a pop restores the whole frame: on the non-empty arm of `tail.pop()` in Values::update every path to the return assigns "
                     "`self.top` (the popped h, v, w, x, y, z and character positions); a restore that is skipped when a partial comparison finds "
                     "no difference leaves w/x/y/z at the inner group's values and VarRemover rewrites the next w/x/y/z move with the wrong distance")
    some_targets = []
    for b2i, b2 in enumerate(fn.blocks):
        t2 = b2["t"]
        if t2["k"] != "switch":
            continue
        p = op_place(t2["op"])
        d = defs.single(p["l"]) if p is not None and not p["p"] else None
        if d and d[0] == "st" and d[3]["k"] == "=" and d[3]["rv"]["k"] == "discr" and d[3]["rv"]["pl"]["l"] == res and not d[3]["rv"]["pl"]["p"]:
            m = dict(t2["ts"])
            some_targets.append(m.get(1, t2["else"]))
    if not some_targets:
        raise AnchorError("R16.10: Some arm of tail.pop() not found")

    def stores_top_whole(b):
        for st in fn.blocks[b]["s"]:
            fp = field_path(st["lhs"]) if st["k"] == "=" else None
            if fp and fp[-1] == "top":
                return True
        tb = fn.blocks[b]["t"]
        if tb["k"] == "call" and strip_generics(callee_name(tb) or "") in ("core::mem::replace", "core::mem::swap") and tb.get("args"):
            for a in tb["args"][:2]:
                rp = defs.resolve_place(a)
                fp = field_path(rp) if rp is not None else None
                if fp and fp[-1] == "top":
                    return True      # `let old = mem::replace(&mut self.top, popped)`
        if tb["k"] == "call":
            c = tb.get("callee") or {}
            for hn, (g, flds) in _helpers_storing(F, fn).items():
                if g.id in (c.get("id"), c.get("rid")) and "top" in flds:
                    return True      # `self.replace_top(popped)`
        return False
    skip = find_path(fn, some_targets, lambda b: is_return(fn, b), blocked={b for b in range(len(fn.blocks)) if stores_top_whole(b)})
    if skip:
        R.violation("R16.10", "Values::update/pop-restores", "on the non-empty arm of `tail.pop()` a path reaches the return without assigning self.top (%s): "
                    "part of the popped frame is dropped" % " -> ".join(fn.loc(fn.blocks[b]["t"]).split("/")[-1] for b in skip[:5]), fn.loc(fn.blocks[skip[0]]["t"]))
    else:
        R.ok("R16.10", "Values::update/pop-restores", "self.top assigned on every path of the Some arm", loc, how="path")


def r16_7(F, R):
    from ..cfg import Defs
    R.rule("R16.7", "the count of trailing 223 bytes is an operand, not a policy: in serialize's EndPostamble arm the bound of the loop that writes 223 "
                    "is the `num_223_bytes` field itself (a plain copy of it), so that the reader's count equals the operand for every value — "
                    "a `max(4)` or similar changes the operation that is read back")
    fn = _one(F, "dvi::serialize::serialize")
    defs = Defs(fn)
    # the Range whose loop body writes the constant 223
    writes = [bi for bi, t in fn.calls() if strip_generics(callee_name(t) or "").endswith("Writer::u8") and len(t["args"]) == 2 and t["args"][1].get("c", {}).get("int") == 223]
    if not writes:
        raise AnchorError("R16.7: no write of the constant 223 in serialize")
    ranges = [st for b in fn.blocks for st in b["s"] if st["k"] == "=" and st["rv"]["k"] == "agg" and st["rv"].get("ak") == "adt" and st["rv"]["adt"].endswith("ops::range::Range")]
    # pick the range whose definition block reaches the 223 write and is the closest before it
    from ..cfg import reachable
    cands = []
    for bi, b in enumerate(fn.blocks):
        for st in b["s"]:
            if st in ranges and any(w in reachable(fn, bi) for w in writes):
                cands.append((bi, st))
    if not cands:
        raise AnchorError("R16.7: no Range feeding the 223 loop")
    bi, st = max(cands, key=lambda x: x[0])
    end = st["rv"]["ops"][1]

    def chain(o, depth=6):
        p = op_place(o)
        out = []
        while p is not None and depth > 0:
            depth -= 1
            if p["p"]:
                out.append(("place", [e.get("n") if isinstance(e, dict) else e for e in p["p"]]))
                # through a reference local: follow the base
                d = defs.single(p["l"])
                if d and d[0] == "st" and d[3]["k"] == "=" and d[3]["rv"]["k"] == "ref":
                    out.append(("place", [e.get("n") if isinstance(e, dict) else e for e in d[3]["rv"]["pl"]["p"]]))
                return out
            d = defs.single(p["l"])
            if d is None:
                out.append(("multi", None))
                return out
            if d[0] == "call":
                out.append(("call", strip_generics(callee_name(d[3]) or "").split("::")[-1]))
                return out
            rv = d[3]["rv"]
            if rv["k"] == "use":
                p = op_place(rv["op"])
                if p is None:
                    out.append(("const", rv["op"].get("c", {}).get("int")))
                continue
            out.append((rv["k"], rv.get("op")))
            return out
        return out
    ch = chain(end)
    ok = ch and ch[-1][0] == "place" and "num_223_bytes" in (ch[-1][1] or []) and all(c[0] == "place" for c in ch)
    loc = fn.loc(st)
    if ok:
        R.ok("R16.7", "EndPostamble/223-count", "loop bound is a copy of num_223_bytes", loc, how="def-use")
    else:
        R.violation("R16.7", "EndPostamble/223-count", "the number of 223 bytes written for EndPostamble is not the operand itself (it is produced through %s): "
                    "the operation read back has a different num_223_bytes" % [c for c in ch if c[0] != "place"][:2], loc)


def _helpers_storing(F, upd, fields=("top", "tail")):
    """{helper short name: set of tracked fields it assigns} for same-file functions that Values::update calls (an extracted `replace_top`)"""
    from ..cfg import Defs, field_path
    from .common import same_file_callees
    out = {}
    for g in same_file_callees(F, upd):
        gd = Defs(g)
        st_fields = set()
        for b in g.blocks:
            for st in b["s"]:
                fp = field_path(st["lhs"]) if st["k"] == "=" else None
                if fp and fp[-1] in fields and st["lhs"]["l"] == 1:
                    st_fields.add(fp[-1])
            tb = b["t"]
            if tb["k"] == "call" and strip_generics(callee_name(tb) or "") in ("core::mem::replace", "core::mem::swap", "core::mem::take") and tb.get("args"):
                for a in tb["args"][:2]:
                    rp = gd.resolve_place(a)
                    fp = field_path(rp) if rp is not None else None
                    if fp and fp[-1] in fields and rp["l"] == 1:
                        st_fields.add(fp[-1])
        # only fields the helper assigns on *every* path to its return count (a helper that restores `if changed` is the defect, not the idiom)
        from ..cfg import find_path, is_return
        always = set()
        for f in st_fields:
            blocks = set()
            for bi, b in enumerate(g.blocks):
                for st in b["s"]:
                    fp = field_path(st["lhs"]) if st["k"] == "=" else None
                    if fp and fp[-1] == f and st["lhs"]["l"] == 1:
                        blocks.add(bi)
                tb = b["t"]
                if tb["k"] == "call" and strip_generics(callee_name(tb) or "") in ("core::mem::replace", "core::mem::swap", "core::mem::take") and tb.get("args"):
                    for a in tb["args"][:2]:
                        rp = gd.resolve_place(a)
                        fp = field_path(rp) if rp is not None else None
                        if fp and fp[-1] == f and rp["l"] == 1:
                            blocks.add(bi)
            if find_path(g, [0], lambda b: is_return(g, b), blocked=blocks) is None:
                always.add(f)
        if always:
            out[strip_generics(g.name).split("::")[-1]] = (g, always)
    return out


def r16_8(F, R):
    R.rule("R16.8", "a page starts from scratch: on every path of Values::update for Op::BeginPage the push/pop stack (`tail`) is replaced and the "
                    "registers (`top`) are reset — frames left over from an unbalanced previous page must not survive, or a later pop restores the "
                    "previous page's w/x/y/z and VarRemover emits wrong distances")
    upd = _one(F, "dvi::Values::update")
    ops = {v[0]: v[2] for v in F.enums[OP]}
    helpers = _helpers_storing(F, upd)
    e = EDT(F, upd, type_assume={OP: ops["BeginPage"]}, interesting_fields=["tail", "top"], interesting_calls=list(helpers))
    n = 0
    bad = 0
    for p in e.run():
        if p.end[0] != "return":
            continue
        n += 1
        stored = {ev[1].split(".")[-1] for ev in p.events if ev[0] == "store"}
        for ev in p.events:
            if ev[0] == "call" and ev[1] in helpers:
                stored |= helpers[ev[1]][1]      # an extracted helper that assigns the field
        if not {"tail", "top"} <= stored:
            bad += 1
    loc = "%s:%d" % (upd.file, upd.line)
    if n == 0:
        raise AnchorError("R16.8: no returning path for BeginPage")
    if bad:
        R.violation("R16.8", "update/BeginPage", "Values::update(BeginPage) leaves the stack or the registers untouched on %d of %d paths" % (bad, n), loc)
    else:
        R.ok("R16.8", "update/BeginPage", "tail and top replaced on all %d paths" % n, loc, how="edt")


def r16_9(F, R):
    from ..dataflow import op_place
    R.rule("R16.9", "strings have one encoding on both sides: the writer emits the UTF-8 bytes of a string (str::as_bytes) and the reader decodes a "
                    "byte string as UTF-8 (the from_utf8 family); the reader never turns a single byte into a character (`u8 as char`, char::from(u8), "
                    "char::from_u32 of a byte), which is Latin-1 decoding and returns a different string for every non-ASCII comment, font area or name")
    n_dec = n_enc = 0
    for fn in sorted(F.fns.values(), key=lambda f: f.name):
        nm = strip_generics(fn.name)
        if "::tests::" in nm:
            continue
        if "dvi::deserialize::" in nm:
            k = 0
            for bi, b in enumerate(fn.blocks):
                if b.get("cleanup"):
                    continue
                for st in b["s"]:
                    if st["k"] == "=" and st["rv"]["k"] == "cast" and not st["lhs"]["p"] and fn.local_ty(st["lhs"]["l"]) == "char":
                        R.violation("R16.9", "%s/byte-to-char#%d" % (nm, k), "%s converts a number to a character with `as char`: a byte string is not decoded "
                                    "as UTF-8, so a non-ASCII string written by the serializer is read back as a different string" % fn.name, fn.loc(st))
                        k += 1
                t = b["t"]
                if t["k"] == "call":
                    cn = strip_generics(callee_name(t) or "")
                    g = strip_generics((t.get("callee") or {}).get("fn") or "")
                    if cn.split("::")[-1].startswith("from_utf8") or g.split("::")[-1].startswith("from_utf8"):
                        n_dec += 1
                        R.ok("R16.9", "%s/decode#%d" % (nm, n_dec), "UTF-8 decoding (%s)" % cn.split("::")[-1], fn.loc(t), how="callee")
                    a0 = op_place(t["args"][0]) if t.get("args") else None
                    a0ty = fn.local_ty(a0["l"]) if a0 is not None and not a0["p"] else ""
                    if (cn in ("<char as core::convert::From>::from", "core::char::convert::<impl core::convert::From for char>::from") or
                            (cn.endswith("::from") and "char" in cn.split("::from")[0].split("::")[-1] and a0ty == "u8") or
                            cn.endswith("char::from_u32") or cn.endswith("from_u32_unchecked") or cn.endswith("char::from_digit") or
                            (cn.endswith("::into") and a0ty == "u8" and fn.local_ty(t["dest"]["l"]) == "char")):
                        R.violation("R16.9", "%s/byte-to-char#%d" % (nm, k), "%s builds a character from a single number (%s): a byte string is not decoded as "
                                    "UTF-8, so a non-ASCII string written by the serializer is read back as a different string" % (fn.name, cn), fn.loc(t))
                        k += 1
        if "dvi::serialize::" in nm:
            for bi, t in fn.calls():
                cn = strip_generics(callee_name(t) or "")
                if cn.endswith("str>::as_bytes") or cn.endswith("::as_bytes") or cn.endswith("::into_bytes"):
                    n_enc += 1
                    R.ok("R16.9", "%s/encode#%d" % (nm, n_enc), "UTF-8 bytes of the string (%s)" % cn.split("::")[-1], fn.loc(t), how="callee")
    R.floor("R16.9", "UTF-8 decoding sites in the reader", n_dec, 1)
    R.floor("R16.9", "UTF-8 encoding sites in the writer", n_enc, 1)


def run(F, R, tier):
    r16_9(F, R)
    r16_1(F, R)
    r16_7(F, R)
    r16_8(F, R)
    r16_5(F, R)
    r16_6(F, R)
    r16_1b(F, R)
    r16_2(F, R)
    try:
        from . import pps_c16
        pps_c16.run(F, R, tier)
    except ImportError:
        R.note("R16.3/R16.4 (potential-panic sites) not built yet")
    return ("Static analysis: both DVI opcode tables are extracted from MIR by finite-domain specialisation (reader: op_code = 0..=255; writer: every Op "
            "variant x Var x move_h x fast/slow path; u32_var/i32_var offsets) and compared cell by cell (variant, constants, widths, signedness, field "
            "order). Axis partition of the w/x/y/z variables agrees across Values::update and VarRemover. Value-level boundary arithmetic of the 3-byte "
            "signed form, 'consumes every byte' and position preservation as a value statement are not decided.")
