"""C06 — numbers (partial): operator table of \\advance/\\multiply/\\divide, unit
tables, and potential-panic sites of the numeric modules."""
from ..cfg import Defs, find_path, is_return, err_blocks
from ..edt import EDT, UNKNOWN, C
from ..facts import callee_name, strip_generics, AnchorError
from ..dataflow import op_place
from .common import callee_generic

UNIT = "common::ScaledUnit"
# TeX: The Program §458
TEX_UNITS = {"Point": (1, 1), "Pica": (12, 1), "Inch": (7227, 100), "BigPoint": (7227, 7200), "Centimeter": (7227, 254),
             "Millimeter": (7227, 2540), "DidotPoint": (1238, 1157), "Cicero": (14856, 1157), "ScaledPoint": (1, 65536)}
TEX_KEYWORDS = {"pt": "Point", "pc": "Pica", "in": "Inch", "bp": "BigPoint", "cm": "Centimeter", "mm": "Millimeter",
                "dd": "DidotPoint", "cc": "Cicero", "sp": "ScaledPoint"}


def _named(F, pattern):
    c = [f for f in F.fns.values() if pattern(strip_generics(f.name))]
    return c


def _op_impl(F, op, meth):
    c = [f for f in F.fns.values() if f.impl and f.impl.get("trait") == "texlang_stdlib::math::Op" and f.impl.get("self_ty", "").endswith("::" + op) and f.name.endswith("::" + meth)]
    if len(c) != 1:
        raise AnchorError("math::%s::%s: %d matches" % (op, meth, len(c)))
    return c[0]


def r6_1(F, R):
    R.rule("R6.1", "operator table (TeX §§1238-1240): \\advance wraps silently (wrapping_add, never Err); \\multiply and \\divide use the checked operation "
                   "and turn None into Err; apply_to_variable reports an Err through input.error and does not store; the three Number impls forward "
                   "each method to the like-named operation")
    want = {"AdvanceOp": ("wrapping_add", False), "MultiplyOp": ("checked_mul", True), "DivideOp": ("checked_div", True)}
    meths = ["wrapping_add", "checked_add", "checked_mul", "wrapping_mul", "checked_div"]
    for op, (meth, can_err) in want.items():
        fn = _op_impl(F, op, "apply")
        e = EDT(F, fn, interesting_calls=["Number::" + m for m in meths])
        paths = e.run()
        called = set()
        rets = set()
        for p in paths:
            for ev in p.events:
                if ev[0] == "call":
                    called.add(ev[1].split("::")[-1])
            if p.end[0] == "return" and p.ret and p.ret[0] == "agg":
                rets.add(p.ret[4])
        # `N::checked_mul(lhs, rhs).ok_or_else(|| ..)`: the returned Result is the operation's Option mapped Some -> Ok, None -> Err
        mapped = False
        from ..cfg import Defs as _Defs
        _D = _Defs(fn)
        for bi, tt in fn.calls():
            if strip_generics(callee_name(tt) or "").split("::")[-1] in ("ok_or", "ok_or_else") and not tt["dest"]["p"] and tt["dest"]["l"] == 0 and tt.get("args"):
                src = _D.resolve_place(tt["args"][0])
                d0 = _D.single(src["l"]) if src is not None and not src["p"] else None
                if d0 and d0[0] == "call" and strip_generics(callee_name(d0[3]) or "").endswith("Number::" + meth):
                    mapped = True
        if mapped:
            rets |= {"Ok", "Err"}
            called.add(meth)
        # which operation produces the Ok value
        loc = "%s:%d" % (fn.file, fn.line)
        ok = meth in called and ("Err" in rets) == can_err and "Ok" in rets
        # the Ok payload must come from the named operation: on Ok paths the first Number call is `meth`
        for p in paths:
            if p.end[0] == "return" and p.ret and p.ret[0] == "agg" and p.ret[4] == "Ok":
                first = [ev[1].split("::")[-1] for ev in p.events if ev[0] == "call"]
                if not first or first[0] != meth:
                    ok = False
        if ok:
            R.ok("R6.1", op, "%s; returns %s" % (meth, sorted(rets)), loc, how="edt")
        else:
            R.violation("R6.1", op, "%s::apply uses %s and returns %s; TeX requires %s and %s" % (op, sorted(called), sorted(rets), meth,
                        "an error on overflow / division by zero" if can_err else "silent wrap-around, never an error"), loc)
    # the None arm -> Err: checked via EDT with the Option result forced to None
    for op, (meth, can_err) in want.items():
        if not can_err:
            continue
        fn = _op_impl(F, op, "apply")
        none_model = lambda ed, a, t: ("agg", "core::option::Option", [], 0, "None")
        e = EDT(F, fn, call_models={"texlang_stdlib::math::Number::" + meth: none_model})
        rets = {p.ret[4] for p in e.run() if p.end[0] == "return" and p.ret and p.ret[0] == "agg"}
        if rets == {"Err"}:
            R.ok("R6.1", op + "/None=>Err", None, "%s:%d" % (fn.file, fn.line), how="edt")
        else:
            R.violation("R6.1", op + "/None=>Err", "%s::apply returns %s when %s fails; TeX reports an error and leaves the variable unchanged" % (op, sorted(rets), meth), "%s:%d" % (fn.file, fn.line))
    # apply_to_variable: Err => input.error, no set
    fns = [f for f in F.fns.values() if strip_generics(f.name) == "texlang_stdlib::math::Op::apply_to_variable"]
    if len(fns) != 1:
        raise AnchorError("Op::apply_to_variable: %d matches" % len(fns))
    fn = fns[0]
    for outcome, variant in (("Err", 1), ("Ok", 0)):
        model = lambda ed, a, t, v=variant, o=outcome: ("agg", "core::result::Result", [UNKNOWN], v, o)
        e = EDT(F, fn, interesting_calls=["TypedVariable::set", "TokenStream::error", "TokenStream>::error"],
                call_models={"texlang_stdlib::math::Op::apply": model})
        sets = errs = 0
        n = 0
        for p in e.run():
            if p.end[0] != "return":
                continue
            n += 1
            names = [ev[1] for ev in p.events if ev[0] == "call"]
            sets += any(x == "TypedVariable::set" for x in names)
            errs += any(x.endswith("error") for x in names)
        inst = "apply_to_variable/%s" % outcome
        loc = "%s:%d" % (fn.file, fn.line)
        if outcome == "Err":
            if n and sets == 0 and errs == n:
                R.ok("R6.1", inst, "error reported, variable untouched (%d paths)" % n, loc, how="edt")
            else:
                R.violation("R6.1", inst, "when the operation fails apply_to_variable must report the error and leave the variable unchanged (paths %d, with set %d, with error %d)" % (n, sets, errs), loc)
        else:
            if n and sets == n and errs == 0:
                R.ok("R6.1", inst, "result stored (%d paths)" % n, loc, how="edt")
            else:
                R.violation("R6.1", inst, "on success apply_to_variable must store the result exactly (paths %d, with set %d, with error %d)" % (n, sets, errs), loc)
    # Number impls forward to the like-named method
    k = 0
    for f in F.fns.values():
        if f.impl and f.impl.get("trait") == "texlang_stdlib::math::Number":
            m = f.name.split("::")[-1]
            if m not in meths:
                continue
            k += 1
            full = [strip_generics(callee_name(t) or "") for bi, t in f.calls()]
            called = [x.split("::")[-1] for x in full]
            sty = f.impl.get("self_ty", "")
            owner = {"i32": "<impl i32>", "common::Scaled": "common::Scaled::", "common::Glue": "common::Glue::"}.get(sty, sty)
            if called == [m] and owner in full[0]:
                R.ok("R6.1", "Number for %s::%s" % (f.impl.get("self_ty"), m), "forwards to %s" % m, "%s:%d" % (f.file, f.line), how="sibling")
            else:
                R.violation("R6.1", "Number for %s::%s" % (f.impl.get("self_ty"), m), "Number::%s for %s calls %s instead of %s's own like-named operation" % (m, f.impl.get("self_ty"), full, f.impl.get("self_ty")), "%s:%d" % (f.file, f.line))
    R.floor("R6.1", "Number impl methods", k, 15)
    # which Op each primitive getter installs
    want_get = {"get_advance": "AdvanceOp", "get_multiply": "MultiplyOp", "get_divide": "DivideOp"}
    for g, op in want_get.items():
        fn = [f for f in F.fns.values() if strip_generics(f.name) == "texlang_stdlib::math::" + g]
        if len(fn) != 1:
            raise AnchorError("math::%s: %d matches" % (g, len(fn)))
        args = []
        for bi, t in fn[0].calls():
            c = t.get("callee", {})
            if strip_generics(c.get("fn", "")) == "texlang_stdlib::math::get_command":
                args = c.get("args", [])
        if any(a.endswith("::" + op) for a in args):
            R.ok("R6.1", g, "installs %s" % op, "%s:%d" % (fn[0].file, fn[0].line), how="callee-args")
        else:
            R.violation("R6.1", g, "math::%s installs %s; TeX's primitive needs %s" % (g, args, op), "%s:%d" % (fn[0].file, fn[0].line))


def r6_1b(F, R):
    R.rule("R6.1b", "unit tables: conversion_fraction equals TeX §458 for all nine units; the two keyword tables (common::ScaledUnit::parse and texlang's "
                    "Parsable for ScaledUnit) map the same nine keywords to the same variants and cover every variant")
    fn = [f for f in F.fns.values() if strip_generics(f.name) == "common::ScaledUnit::conversion_fraction"]
    if len(fn) != 1:
        raise AnchorError("conversion_fraction: %d" % len(fn))
    fn = fn[0]
    variants = F.enums[UNIT]
    if sorted(v[0] for v in variants) != sorted(TEX_UNITS):
        R.violation("R6.1b", "variants", "ScaledUnit variants %s differ from TeX's nine physical units" % [v[0] for v in variants], None)
    for vname, vd, vvi in variants:
        e = EDT(F, fn, type_assume={UNIT: vvi})
        got = set()
        for p in e.run():
            if p.end[0] == "return" and p.ret and p.ret[0] == "t" and all(x[0] == "c" for x in p.ret[1]):
                got.add(tuple(x[1] for x in p.ret[1]))
            else:
                got.add("?")
        want = {TEX_UNITS.get(vname)}
        loc = "%s:%d" % (fn.file, fn.line)
        if got == want:
            R.ok("R6.1b", "fraction(%s)" % vname, sorted(got), loc, how="edt")
        else:
            R.violation("R6.1b", "fraction(%s)" % vname, "conversion_fraction(%s) = %s, TeX §458 has %s" % (vname, sorted(map(str, got)), want), loc)
    # keyword table 1: common::ScaledUnit::parse
    fn1 = [f for f in F.fns.values() if strip_generics(f.name) == "common::ScaledUnit::parse"][0]
    e = EDT(F, fn1, interesting_calls=["<impl core::cmp::PartialEq for str>::eq", "PartialEq>::eq", "PartialEq::eq"], record_aggs=[UNIT], sym_args={1: "s"})
    tab1 = {}
    for p in e.run():
        if p.end[0] != "return":
            continue
        aggs = [ev[2] for ev in p.events if ev[0] == "agg" and ev[1] == UNIT]
        kws = [a[4:] for ev in p.events if ev[0] == "call" for a in ev[2] if isinstance(a, str) and a.startswith("str:")]
        if aggs and kws:
            tab1[kws[-1]] = aggs[-1]
    # keyword table 2: texlang Parsable for ScaledUnit: array of (keyword, unit) tuples
    fn2 = [f for f in F.fns.values() if f.impl and f.impl.get("trait") == "texlang::parse::Parsable" and f.impl.get("self_ty") == UNIT and f.name.endswith("parse_impl")]
    if len(fn2) != 1:
        raise AnchorError("Parsable for ScaledUnit: %d matches" % len(fn2))
    fn2 = fn2[0]
    defs = Defs(fn2)
    tab2 = {}
    for b in fn2.blocks:
        for st in b["s"]:
            if st["k"] == "=" and st["rv"]["k"] == "agg" and st["rv"].get("ak") == "tuple" and len(st["rv"]["ops"]) == 2:
                kw = _resolve_str(fn2, defs, st["rv"]["ops"][0])
                vp = op_place(st["rv"]["ops"][1])
                unit = None
                if vp is not None:
                    d = defs.single(vp["l"])
                    if d and d[0] == "st" and d[3]["rv"]["k"] == "agg" and d[3]["rv"].get("adt") == UNIT:
                        unit = d[3]["rv"]["variant"]
                if kw is not None and unit is not None:
                    tab2[kw] = unit
    for name, tab, fnx in (("common::ScaledUnit::parse", tab1, fn1), ("texlang Parsable for ScaledUnit", tab2, fn2)):
        loc = "%s:%d" % (fnx.file, fnx.line)
        if tab == TEX_KEYWORDS:
            R.ok("R6.1b", "keywords/" + name, "nine keywords, TeX §458", loc, how="table")
        else:
            diff = {k: (tab.get(k), TEX_KEYWORDS.get(k)) for k in set(tab) | set(TEX_KEYWORDS) if tab.get(k) != TEX_KEYWORDS.get(k)}
            R.violation("R6.1b", "keywords/" + name, "%s maps units differently from TeX §458: %s (got, expected)" % (name, diff), loc)


def _resolve_str(fn, defs, op, depth=5):
    from ..facts import const_str
    for _ in range(depth):
        if "c" in op:
            return const_str(op["c"])
        p = op_place(op)
        if p is None:
            return None
        d = defs.single(p["l"])
        if not d or d[0] != "st" or d[3]["k"] != "=":
            return None
        rv = d[3]["rv"]
        if rv["k"] == "use":
            op = rv["op"]
        elif rv["k"] == "ref":
            op = {"cp": {"l": rv["pl"]["l"], "p": []}}
        else:
            return None
    return None


def r6_1c(F, R):
    R.rule("R6.1c", "scan_decimal_fraction keeps exactly 17 fractional digits (TeX §452: `if k<17`): odd multiples of 2^-17 have 17 decimal digits and "
                    "decide the rounding; from_decimal_digits (TeX §102) is fed exactly the digits kept")
    fn = [f for f in F.fns.values() if strip_generics(f.name) == "texlang::parse::dimen::scan_decimal_fraction"]
    if len(fn) != 1:
        raise AnchorError("scan_decimal_fraction: %d matches" % len(fn))
    fn = fn[0]
    import re
    lens = set()
    for ty, nm in fn.locals:
        m = re.match(r"^\[u8; (\d+)\]$", ty)
        if m:
            lens.add(int(m.group(1)))
    loc = "%s:%d" % (fn.file, fn.line)
    if lens == {17}:
        R.ok("R6.1c", "fraction digits kept", "17", loc, how="constant")
    else:
        R.violation("R6.1c", "fraction digits kept", "scan_decimal_fraction keeps %s fractional digits; TeX §452 keeps 17 (the 17th digit decides half-sp ties, e.g. 0.00000762939453125pt = 1sp)" % sorted(lens), loc)


NUMERIC = ("common::", "texlang::parse::integer::", "texlang::parse::dimen::", "texlang::parse::glue::", "texlang_stdlib::math::", "texlang_stdlib::the::write")


def _inner_of_scaled(fn, defs, o, depth=6):
    """operand is (a copy / integer cast of) the raw inner integer `x.0` of a common::Scaled"""
    p = op_place(o)
    if p is None:
        return False
    if p["p"]:
        last = p["p"][-1]
        if isinstance(last, dict) and last.get("f") == 0 and "common::Scaled" in fn.local_ty(p["l"]) and len([e for e in p["p"] if e != "*"]) == 1:
            return True
        return False
    if depth == 0:
        return False
    d = defs.single(p["l"])
    if d and d[0] == "st" and d[3]["k"] == "=" and d[3]["rv"]["k"] in ("use", "cast"):
        return _inner_of_scaled(fn, defs, d[3]["rv"]["op"], depth - 1)
    return False


def r6_3(F, R):
    R.rule("R6.3", "layering: TeX's scaling arithmetic (x*n/d with truncation toward zero, nx+y with its bound; TeX §§100-107) lives in common::Scaled. "
                   "In the interpreter (texlang, texlang-stdlib) no multiplication, division, remainder or shift is applied to the raw inner integer of a "
                   "Scaled: a hand-written product/shift rounds differently (toward minus infinity) or misses the overflow bound")
    SCOPE = ("texlang.lib", "texlang_stdlib.lib")
    CANARY = ("boxworks.lib",)
    n_fns = 0
    canary = 0
    for fn in sorted(F.fns.values(), key=lambda f: f.name):
        if fn.crate not in SCOPE + CANARY or "::tests::" in fn.name:
            continue
        n_fns += 1
        defs = None
        k = 0
        for b in fn.blocks:
            if b.get("cleanup"):
                continue
            for st in b["s"]:
                if st["k"] == "=" and st["rv"]["k"] == "bin" and st["rv"]["op"].replace("WithOverflow", "") in ("Mul", "Div", "Rem", "Shr", "Shl"):
                    defs = defs or Defs(fn)
                    if _inner_of_scaled(fn, defs, st["rv"]["a"]) or _inner_of_scaled(fn, defs, st["rv"]["b"]):
                        if fn.crate in CANARY:
                            canary += 1
                            continue
                        op = st["rv"]["op"].replace("WithOverflow", "")
                        R.violation("R6.3", "%s/%s#%d" % (strip_generics(fn.name), op, k), "%s applies `%s` to the raw integer of a Scaled (`%s`): TeX's "
                                    "xn_over_d / nx_plus_y (common::Scaled) define the rounding and the overflow bound of this computation" % (
                                        fn.name, op, (st.get("snip") or "")[:60]), fn.loc(st))
                        k += 1
    R.floor("R6.3", "functions scanned", n_fns, 1800)
    # the matcher itself is exercised on every run: boxworks (outside the claim) does raw arithmetic on Scaled.0
    R.floor("R6.3", "raw-arithmetic sites recognised in the canary crate (boxworks)", canary, 2)
    R.ok("R6.3", "texlang+texlang-stdlib", "no raw scaling arithmetic on Scaled.0 (canary sites recognised: %d)" % canary, None, how="layering")


def r6_1d(F, R):
    R.rule("R6.1d", "Scaled::new (TeX §458) range-checks the complete value: the argument of the final from_integer check includes the carry "
                    "(`integer_part()` of the converted fraction), and what is added after the check is only a `fractional_part()` (< 1pt); "
                    "otherwise constants just above 16383.99998pt are accepted without `Dimension too large`")
    fn = [f for f in F.fns.values() if strip_generics(f.name) == "common::Scaled::new"]
    if len(fn) != 1:
        raise AnchorError("R6.1d: common::Scaled::new: %d matches" % len(fn))
    fn = fn[0]
    from ..dataflow import Flow, origin_calls
    flow = Flow(fn)
    loc = "%s:%d" % (fn.file, fn.line)
    # final sum: the Add::add call whose result reaches the Ok aggregate
    adds = [(bi, t) for bi, t in fn.calls() if strip_generics(callee_name(t) or "").endswith("Add>::add") or strip_generics(callee_name(t) or "").endswith("Add::add")]
    oks = [st for b in fn.blocks for st in b["s"] if st["k"] == "=" and st["lhs"]["l"] == 0 and st["rv"]["k"] == "agg" and st["rv"].get("variant") == "Ok"]
    final = None
    for bi, t in adds:
        for st in oks:
            if ("local", t["dest"]["l"]) in flow.operand_origins(st["rv"]["ops"][0]):
                final = t
    if final is None:
        raise AnchorError("R6.1d: no final sum feeding Ok(..) in Scaled::new")
    defs = Defs(fn)

    def producer(o, depth=10):
        """the call that immediately produces the operand, looking through copies, `?` (Try::branch + downcast) and unwrap/expect"""
        p = op_place(o)
        while p is not None and depth > 0:
            depth -= 1
            d = defs.single(p["l"])
            if d is None:
                return None
            if d[0] == "call":
                n = strip_generics(callee_name(d[3]) or "")
                if n.split("::")[-1] in ("branch", "unwrap", "expect", "from_residual", "into", "from", "clone") and d[3]["args"]:
                    p = op_place(d[3]["args"][0])
                    continue
                return d[3]
            rv = d[3].get("rv", {})
            if rv.get("k") == "use":
                p = op_place(rv["op"])
            else:
                return None
        return None
    a, b = final["args"][:2]
    pa, pb = producer(a), producer(b)
    na = strip_generics(callee_name(pa) or "").split("::")[-1] if pa else None
    nb = strip_generics(callee_name(pb) or "").split("::")[-1] if pb else None
    if "from_integer" not in (na, nb):
        R.violation("R6.1d", "Scaled::new/check", "neither addend of the final sum in Scaled::new is produced by the range-checked from_integer (producers: %s, %s)" % (na, nb), fn.loc(final))
        return
    chk, other, other_name = (pa, pb, nb) if na == "from_integer" else (pb, pa, na)
    if other_name != "fractional_part":
        R.violation("R6.1d", "Scaled::new/carry", "the value added after the range check in Scaled::new is not reduced to its fractional part (it is produced by `%s`): "
                    "whole points carried from the converted fraction escape the `Dimension too large` check" % other_name, fn.loc(final))
        return
    carry = any(x.endswith("::integer_part") for x in origin_calls(flow.operand_origins(chk["args"][0])))
    if carry:
        R.ok("R6.1d", "Scaled::new", "check(i + f.integer_part()) + f.fractional_part()", loc, how="def-use")
    else:
        R.violation("R6.1d", "Scaled::new/carry", "the range check in Scaled::new does not include the whole points carried from the converted fraction", fn.loc(final))


STD_CLASSIFIERS = ("to_digit", "is_digit", "is_ascii_digit", "is_ascii_hexdigit", "is_numeric", "is_alphanumeric", "is_ascii_alphanumeric",
                   "from_str_radix", "from_str", "parse")
FLOORING = ("div_euclid", "rem_euclid", "div_floor", "checked_div_euclid", "checked_rem_euclid", "wrapping_div_euclid", "wrapping_rem_euclid")


def r6_5(F, R):
    R.rule("R6.5", "TeX's own classification and rounding on the scanning path: (a) the number scanner (texlang::parse) never uses std's digit "
                   "classifiers or parsers (char::to_digit, is_ascii_hexdigit, str::parse, from_str_radix, ...): they accept lower-case hex digits, "
                   "signs, underscores or Unicode digits that TeX §§444-445 does not; (b) scaled arithmetic (common::Scaled, texlang::parse, "
                   "texlang-stdlib math) divides with Rust's truncating `/` and `%` as TeX does (toward zero), never with flooring operations "
                   "(div_euclid, rem_euclid, arithmetic shift right of a signed value)")
    from ..pps import Discharger, INT_RANGE
    n_calls = 0
    canary_a = canary_b = 0
    for fn in sorted(F.fns.values(), key=lambda f: f.name):
        if "::tests::" in fn.name or "::testing::" in fn.name:
            continue
        nm = strip_generics(fn.name)
        in_scan = nm.startswith("texlang::parse::")
        in_arith = in_scan or nm.startswith("common::Scaled::") or nm.startswith("<common::Scaled as ") or nm.startswith("<common::Glue as ") or nm.startswith("texlang_stdlib::math::") or nm.startswith("<texlang_stdlib::math::")
        is_canary = fn.crate in ("common.lib", "tfm.lib")
        if not (in_scan or in_arith or is_canary):
            continue
        ka = kb = 0
        D = None
        for bi, t in fn.calls():
            n_calls += 1
            cn = strip_generics(callee_name(t) or "")
            short = cn.split("::")[-1]
            is_cls = short in STD_CLASSIFIERS and ("core::char::methods" in cn or "core::str::" in cn or "core::num::" in cn or "FromStr" in cn)
            is_floor = short in FLOORING and "core::num::" in cn
            if is_cls:
                if in_scan:
                    R.violation("R6.5", "%s/%s#%d" % (nm, short, ka), "%s classifies or converts source characters with std's `%s`, which does not agree with "
                                "TeX's digit rules (for example it accepts lower-case hex digits)" % (fn.name, short), fn.loc(t))
                    ka += 1
                elif is_canary:
                    canary_a += 1
            if is_floor:
                if in_arith:
                    R.violation("R6.5", "%s/%s#%d" % (nm, short, kb), "%s uses the flooring operation `%s` in scaled arithmetic: TeX truncates toward zero, so "
                                "negative operands come out 1sp too small" % (fn.name, short), fn.loc(t))
                    kb += 1
                elif is_canary:
                    canary_b += 1
        if in_arith:
            for bi, b in enumerate(fn.blocks):
                for st in b["s"]:
                    if st["k"] == "=" and st["rv"]["k"] == "bin" and st["rv"]["op"] == "Shr":
                        p = op_place(st["rv"]["a"])
                        ty = fn.local_ty(p["l"]) if p is not None and not p["p"] else st["rv"]["a"].get("c", {}).get("ty")
                        if ty in ("i8", "i16", "i32", "i64", "i128", "isize"):
                            D = D or Discharger(F, fn)
                            src = D.src_local(st["rv"]["a"])
                            lo, hi = D.range_of(src["l"], bi) if src is not None and not src["p"] else (None, None)
                            if lo is not None and lo >= 0:
                                continue
                            R.violation("R6.5", "%s/shr#%d" % (nm, kb), "%s shifts a signed value right (`>>` floors) in scaled arithmetic: TeX divides with "
                                        "truncation toward zero" % fn.name, fn.loc(st))
                            kb += 1
    R.floor("R6.5", "calls examined", n_calls, 500)
    R.floor("R6.5", "std classifier calls recognised in the canary crates (common/tfm string utilities)", canary_a, 1)
    R.floor("R6.5", "flooring calls recognised in the canary crates (tfm checksum)", canary_b, 1)
    R.ok("R6.5", "number scanner and scaled arithmetic", "no std classifier on the scanning path, no flooring division (canaries recognised: %d, %d)" % (canary_a, canary_b), None, how="layering")


def r6_2(F, R, tier):
    from ..pps_run import run_pps
    from .pps_c09 import CHA, ENTRY, REGISTRY
    R.rule("R6.2", "potential-panic sites (quick: explicit panics and unwrap family; thorough: + overflow/division/bounds asserts and curated std calls) in the numeric "
                   "modules (common, parse/{integer,dimen,glue}, math.rs, the.rs::write) reachable from VM::run are discharged or findings")
    kinds = ("K1", "K2", "K3", "K4")

    def in_scope(fn):
        nm = strip_generics(fn.name)
        if nm.startswith("<"):
            nm = nm[1:]
        from .pps_c09 import ARMED_K34_FILES
        return nm.startswith(NUMERIC) or fn.file in ARMED_K34_FILES
    run_pps(F, R, "R6.2", ENTRY, kinds, CHA, registry_names=REGISTRY, fn_filter=in_scope, floor_fns=60, floor_sites=8,
            what=": TeX reports the documented overflow error instead of crashing")


def r6_4(F, R):
    import json, os
    from .common import narrowing_rule
    aud = json.load(open(os.path.join(os.path.dirname(os.path.dirname(os.path.dirname(os.path.abspath(__file__)))), "tables", "narrowing_audited.json")))
    narrowing_rule(F, R, "R6.4", "the numeric modules (texlang::parse, texlang-stdlib math/the/registers, common)",
                   lambda fn: fn.crate == "common.lib" or "texlang::parse::" in fn.name or any(x in fn.name for x in ("texlang_stdlib::math::", "texlang_stdlib::the::", "texlang_stdlib::registers::")), 8, aud)


def r6_6(F, R):
    from ..cfg import Defs, dominators
    from ..dataflow import op_place
    R.rule("R6.6", "only a decimal constant takes a fraction (TeX §448: `if (radix = 10) and (cur_tok = point_token)`): in scan_constant_dimen every "
                   "scan_decimal_fraction call that follows parse_integer is dominated by the success edge of a comparison of the reported radix "
                   "with 10 (`radix == Some(10)` or a match on `Some(10)`); testing only that a radix exists lets `'10.5pt` and `\"A.5pt` scan a "
                   "fraction where TeX reports an illegal unit")
    fns = [f for f in F.fns.values() if strip_generics(f.name) == "texlang::parse::dimen::scan_constant_dimen"]
    if len(fns) != 1:
        raise AnchorError("R6.6: scan_constant_dimen: %d matches" % len(fns))
    fn = fns[0]
    D = Defs(fn)
    dom = dominators(fn)
    pi = [bi for bi, t in fn.calls() if strip_generics(callee_name(t) or "").endswith("integer::parse_integer")]
    if not pi:
        raise AnchorError("R6.6: scan_constant_dimen no longer calls parse_integer")
    sdf = [(bi, t) for bi, t in fn.calls() if strip_generics(callee_name(t) or "").endswith("scan_decimal_fraction") and any(p in dom[bi] for p in pi)]
    if not sdf:
        raise AnchorError("R6.6: no scan_decimal_fraction call after parse_integer")

    def promoted_some(o):
        """value v if the operand is (a reference to) a promoted `Some(v)`"""
        p = op_place(o)
        for _ in range(4):
            if p is None:
                return None
            d = D.single(p["l"])
            if d is None or d[0] != "st" or d[3]["k"] != "=":
                return None
            rv = d[3]["rv"]
            if rv["k"] == "ref":
                p = {"l": rv["pl"]["l"], "p": []}
                continue
            if rv["k"] == "use":
                c = rv["op"].get("c") if isinstance(rv["op"], dict) else None
                if c and "promoted" in c:
                    body = (fn.raw.get("promoted") or [])[c["promoted"]]
                    for b in body["blocks"]:
                        for st in b["s"]:
                            if st["k"] == "=" and st["rv"]["k"] == "agg" and str(st["rv"].get("variant")) == "Some" and st["rv"]["ops"]:
                                cc = st["rv"]["ops"][0].get("c") or {}
                                return cc.get("int")
                    return None
                p = op_place(rv["op"])
                continue
            return None
        return None
    witness = set()
    for bi, t in fn.calls():
        last = strip_generics(callee_name(t) or "").split("::")[-1]
        if last in ("eq", "ne") and len(t["args"]) == 2 and t.get("t") is not None:
            vals = [promoted_some(a) for a in t["args"]]
            if 10 in vals:
                nb = fn.blocks[t["t"]]["t"]
                if nb["k"] == "switch":
                    m = dict((v, bb) for v, bb in nb["ts"])
                    true_t = nb["else"] if 0 in m else m.get(1)
                    false_t = m.get(0, nb["else"])
                    witness.add(true_t if last == "eq" else false_t)
    for bi, b in enumerate(fn.blocks):
        t = b["t"]
        if t["k"] == "switch":
            p = op_place(t["op"])
            if p is not None and p["p"] and fn.local_ty(p["l"]) in ("core::option::Option<u8>", "core::option::Option<u32>", "core::option::Option<i32>"):
                for v, tb in t["ts"]:
                    if v == 10:
                        witness.add(tb)
            src = D.single(p["l"]) if p is not None and not p["p"] else None
            if src and src[0] == "st" and src[3]["k"] == "=" and src[3]["rv"]["k"] == "use":
                q = op_place(src[3]["rv"]["op"])
                if q is not None and q["p"] and fn.local_ty(q["l"]).startswith("core::option::Option<"):
                    for v, tb in t["ts"]:
                        if v == 10:
                            witness.add(tb)
    n = 0
    for bi, t in sdf:
        n += 1
        inst = "scan_constant_dimen/fraction#%d" % n
        if any(w in dom[bi] for w in witness):
            R.ok("R6.6", inst, "dominated by radix == 10", fn.loc(t), how="dominator")
        else:
            R.violation("R6.6", inst, "scan_constant_dimen scans a decimal fraction after parse_integer without having compared the radix with 10: an octal, "
                        "hexadecimal (or alphabetic) constant followed by `.` or `,` takes a fraction, where TeX stops and reports an illegal unit", fn.loc(t))


def r6_7(F, R):
    from ..cfg import Defs, dominators
    from ..dataflow import op_place
    from .common import same_file_callees
    R.rule("R6.7", "a glue prints as TeX's print_spec prints it (§178): the ` plus ` and ` minus ` parts are written exactly when the stretch / shrink "
                   "*amount* is non-zero — every write of <Glue as Display>::fmt after the width is dominated by the non-zero edge of a comparison "
                   "of self.stretch or self.shrink with zero (directly, or in a helper of the same file that receives the amount); a part that is also "
                   "written for a zero amount of infinite order (`plus 0.0fil`) is text TeX never prints")
    fns = [f for f in F.fns.values() if strip_generics(f.name) == "<common::Glue as core::fmt::Display>::fmt"]
    if len(fns) != 1:
        raise AnchorError("R6.7: <Glue as Display>::fmt: %d matches" % len(fns))
    top = fns[0]
    WRITES = ("write_fmt", "write_str", "write_char", "pad")

    def analyse(fn, params):
        """params: {local: label} of Scaled-typed parameters that carry an amount (helper), or None for fmt itself (fields of self).
        -> (witness {block: (label, cmp block)}, writes [(block, term)], calls of helpers that carry an amount [(block, term, {arg index: label})])"""
        D = Defs(fn)

        def amount_of(o):
            p = op_place(o)
            for _ in range(5):
                if p is None:
                    return None
                names = [e.get("n") for e in p["p"] if isinstance(e, dict) and "f" in e]
                if params is None:
                    if names:
                        return names[0] if p["l"] == 1 and names[0] in ("stretch", "shrink") else None
                else:
                    if p["l"] in params and (not names or names == ["0"]):
                        return params[p["l"]]
                    if names:
                        return None
                d = D.single(p["l"])
                if d is None or d[0] != "st" or d[3]["k"] != "=":
                    return None
                rv = d[3]["rv"]
                if rv["k"] == "ref":
                    p = rv["pl"]
                    continue
                if rv["k"] == "use":
                    p = op_place(rv["op"])
                    continue
                return None
            return None

        def is_zero_const(o):
            p = op_place(o)
            for _ in range(5):
                if p is None:
                    return "ZERO" in str(o.get("c")) if isinstance(o, dict) and o.get("c") is not None else False
                d = D.single(p["l"])
                if d is None or d[0] != "st" or d[3]["k"] != "=":
                    return False
                rv = d[3]["rv"]
                if rv["k"] == "ref":
                    p = {"l": rv["pl"]["l"], "p": []}
                    continue
                if rv["k"] == "use":
                    c = rv["op"].get("c") if isinstance(rv["op"], dict) else None
                    if c and "promoted" in c:
                        body = (fn.raw.get("promoted") or [])[c["promoted"]]
                        for b in body["blocks"]:
                            for st in b["s"]:
                                if st["k"] == "=" and st["rv"]["k"] == "agg" and str(st["rv"].get("adt", "")).endswith("Scaled") and st["rv"]["ops"]:
                                    return (st["rv"]["ops"][0].get("c") or {}).get("int") == 0
                                if st["k"] == "=" and st["rv"]["k"] == "use" and isinstance(st["rv"]["op"], dict) and "ZERO" in str(st["rv"]["op"].get("c")):
                                    return True
                        return False
                    if c is not None:
                        return "ZERO" in str(c)
                    p = op_place(rv["op"])
                    continue
                return False
            return False
        witness = {}
        for bi, t in fn.calls():
            last = strip_generics(callee_name(t) or "").split("::")[-1]
            if last in ("eq", "ne") and len(t["args"]) == 2 and t.get("t") is not None:
                fs = [amount_of(a) for a in t["args"]]
                f = [x for x in fs if x]
                if f and any(is_zero_const(a) for a in t["args"]):
                    nb = fn.blocks[t["t"]]["t"]
                    if nb["k"] == "switch":
                        m = dict((v, bb) for v, bb in nb["ts"])
                        true_t = nb["else"] if 0 in m else m.get(1)
                        false_t = m.get(0, nb["else"])
                        witness[false_t if last == "eq" else true_t] = (f[0], bi)
        writes = [(bi, t) for bi, t in fn.calls() if strip_generics(callee_name(t) or "").split("::")[-1] in WRITES]
        carried = []
        for bi, t in fn.calls():
            lab = {i: amount_of(a) for i, a in enumerate(t.get("args") or [])}
            lab = {i: v for i, v in lab.items() if v}
            if lab:
                carried.append((bi, t, lab))
        return witness, writes, carried
    n = 0
    wit, writes, carried = analyse(top, None)
    dom = dominators(top)
    labels = {v[0] for v in wit.values()}
    helper_ok = set()
    if len(labels) < 2:
        # the comparison may sit in a helper that receives the amount
        for bi, t, lab in carried:
            c = t.get("callee") or {}
            g = None
            for cid in (c.get("rid"), c.get("id")):
                if cid and cid in F.fns and F.fns[cid].file == top.file:
                    g = F.fns[cid]
                    break
            if g is None:
                continue
            params = {i + 1: v for i, v in lab.items() if g.local_ty(i + 1).endswith("Scaled")}
            if not params:
                continue
            hw, hwrites, _ = analyse(g, params)
            hdom = dominators(g)
            for hb, ht in hwrites:
                n += 1
                inst = "Glue::fmt/%s/write#%d" % (strip_generics(g.name).split("::")[-1], n)
                if any(w in hdom[hb] for w in hw):
                    R.ok("R6.7", inst, "written only when the amount handed to %s is non-zero" % g.name, g.loc(ht), how="dominator")
                else:
                    R.violation("R6.7", inst, "%s writes a part of the glue on a path where the amount it received was not found non-zero: a zero amount (of "
                                "infinite order) is printed, e.g. `1.0pt plus 0.0fil`, where TeX prints `1.0pt`" % g.name, g.loc(ht))
            if hw and hwrites:
                helper_ok |= set(lab.values())
        if len(labels | helper_ok) < 2:
            raise AnchorError("R6.7: comparisons of self.stretch and self.shrink with zero not found (%s)" % sorted(labels | helper_ok))
    first_test = min([v[1] for v in wit.values()] + [bi for bi, t, lab in carried if set(lab.values()) & helper_ok] or [0])
    for bi, t in writes:
        if bi in dom[first_test] and bi != first_test:
            continue   # the width, written before either test
        n += 1
        inst = "Glue::fmt/write#%d" % n
        ws = [w for w in wit if w in dom[bi]]
        if ws:
            R.ok("R6.7", inst, "written only when self.%s != 0" % wit[ws[0]][0], top.loc(t), how="dominator")
        else:
            R.violation("R6.7", inst, "<Glue as Display>::fmt writes a part of the glue on a path where neither self.stretch nor self.shrink was found non-zero: "
                        "a zero amount (of infinite order) is printed, e.g. `1.0pt plus 0.0fil`, where TeX prints `1.0pt`", top.loc(t))
    R.floor("R6.7", "component writes of <Glue as Display>::fmt", n, 3)


def r6_8(F, R):
    from ..cfg import Defs
    from .common import producers
    R.rule("R6.8", "coercion of an integer to a dimension works on the magnitude (TeX §448: `if cur_val < 0 then begin negative := not negative; "
                   "negate(cur_val)`): the integer part handed to scan_and_apply_units — whose overflow tests and clamping assume a non-negative "
                   "integer part — never comes straight from parse_internal_number (a signed register value); it passes `abs` first and the sign is "
                   "applied to the result. The two coercion sites (scan_dimen and the glue scanner) must agree on this")
    tgt = [f for f in F.fns.values() if strip_generics(f.name) == "texlang::parse::dimen::scan_and_apply_units"]
    if len(tgt) != 1:
        raise AnchorError("R6.8: scan_and_apply_units: %d matches" % len(tgt))
    n = 0
    for fn in sorted(F.fns.values(), key=lambda f: f.name):
        if fn.crate != "texlang.lib" or "::tests::" in fn.name:
            continue
        D = None
        for bi, t in fn.calls():
            c = t.get("callee") or {}
            if tgt[0].id not in (c.get("id"), c.get("rid")) or len(t.get("args") or []) < 3:
                continue
            D = D or Defs(fn)
            n += 1
            inst = "%s/integer-part#%d" % (strip_generics(fn.name).replace("texlang::parse::", ""), n)
            pr = producers(fn, D, t["args"][2])
            raw = [name for tag, name, ty in pr if tag == "call" and name.endswith("parse_internal_number")]
            if raw:
                R.violation("R6.8", inst, "%s hands the signed value of an internal integer straight to scan_and_apply_units: its range tests assume a "
                            "non-negative integer part, so `\\count1 sp` with a large negative \\count1 is not reported as too large (or is clamped to "
                            "the wrong sign)" % fn.name, fn.loc(t))
            else:
                R.ok("R6.8", inst, "integer part produced by %s" % sorted({name.split("::")[-1] for tag, name, ty in pr if tag == "call"}), fn.loc(t), how="provenance")
    R.floor("R6.8", "calls of scan_and_apply_units", n, 2)


def run(F, R, tier):
    r6_8(F, R)
    r6_7(F, R)
    r6_6(F, R)
    r6_1(F, R)
    r6_1b(F, R)
    r6_1c(F, R)
    r6_1d(F, R)
    r6_3(F, R)
    r6_4(F, R)
    r6_5(F, R)
    r6_2(F, R, tier)
    return ("Static analysis (partial claim). Decided: the operator table of \\advance/\\multiply/\\divide (wrap / checked+error / checked+error, error => no "
            "store) by finite-domain specialisation; the unit conversion fractions and both keyword tables against TeX §458; every potential-panic site of "
            "the numeric modules reachable from the interpreter is discharged or a reproduced finding. NOT decided (the core of C06): bit-exact results, "
            "print/scan round trip, rounding — numeric statements with no static argument in reach.")
