"""C03 — lexer: scanner decision table, follow-state rule, numbering tables,
cursor/key co-update, guarded unsafe write."""
from ..cfg import (Defs, dominators, find_path, is_return, field_path, reachable)
from ..edt import EDT, UNKNOWN, C, _short
from ..facts import callee_name, strip_generics, AnchorError
from ..dataflow import op_place
from .common import callee_generic, recv_fields

CAT = "texlang::types::catcode::CatCode"
ST = "texlang::token::lexer::State"
LEXRES = "texlang::token::lexer::Result"
VALUE = "texlang::token::Value"

TOKEN_CTORS = ["Token::new_control_sequence", "Token::new_space", "Token::new_begin_group", "Token::new_end_group",
               "Token::new_math_shift", "Token::new_alignment_tab", "Token::new_parameter", "Token::new_superscript",
               "Token::new_subscript", "Token::new_letter", "Token::new_other", "Token::new_active_character"]

# TeX: The Program §§344-355 — (catcode, state) -> (token ctor | None, next state | None=unchanged/from-callee, line finished?, ending)
PLAIN = {
    "BeginGroup": "Token::new_begin_group", "EndGroup": "Token::new_end_group", "MathShift": "Token::new_math_shift",
    "AlignmentTab": "Token::new_alignment_tab", "Parameter": "Token::new_parameter", "Subscript": "Token::new_subscript",
    "Letter": "Token::new_letter", "Other": "Token::new_other", "Active": "Token::new_active_character",
}


def reference_cell(cat, state):
    """expected set of outcomes; each outcome = (ctor, stored_state, end_line_called, ending)"""
    if cat == "Escape":
        return {("Token::new_control_sequence", "<from read_control_sequence>", False, "token")}
    if cat in PLAIN:
        return {(PLAIN[cat], "MidLine", False, "token")}
    if cat == "EndOfLine":
        if state == "MidLine":
            return {("Token::new_space", "NewLine", True, "token")}
        if state == "NewLine":
            return {("Token::new_control_sequence:par", "NewLine", True, "token")}
        return {(None, None, True, "loop")}
    if cat == "Space":
        if state == "MidLine":
            return {("Token::new_space", "SkipBlanks", False, "token")}
        return {(None, None, False, "loop")}
    if cat == "Superscript":
        return {(None, None, False, "loop"), ("Token::new_superscript", "MidLine", False, "token")}
    if cat == "Ignored":
        return {(None, None, False, "loop")}
    if cat == "Comment":
        return {(None, None, True, "loop")}
    if cat == "Invalid":
        return {(None, None, False, "invalid")}
    raise KeyError(cat)


def _some_model(self, args, t):
    return ("agg", "core::option::Option", [UNKNOWN], 1, "Some")


def summarise(path, edt):
    ctor = None
    state = None
    end_line = False
    par = False
    caret = False
    for ev in path.events:
        if ev[0] == "call":
            if ev[1] in TOKEN_CTORS:
                ctor = ev[1]
            elif ev[1] == "RawLexer::end_line":
                end_line = True
            elif ev[1] == "Interner::get_or_intern":
                par = any(a == "str:par" for a in ev[2])
            elif ev[1] == "RawLexer::maybe_apply_caret_notation":
                caret = True
            elif ev[1] == "Lexer::read_control_sequence":
                state = "<from read_control_sequence>"
        elif ev[0] == "store" and ev[1].endswith("state"):
            s = ev[2]
            if isinstance(s, str) and s.startswith("State::"):
                state = s[len("State::"):].split("(")[0]
            elif state is None:
                state = "?"
    ending = None
    if path.end[0] == "loop":
        ending = "loop"
    elif path.end[0] == "return":
        kinds = [ev[2] for ev in path.events if ev[0] == "agg" and ev[1] == LEXRES]
        if kinds and kinds[-1] == "Token":
            ending = "token"
        elif kinds and kinds[-1] == "InvalidCharacter":
            ending = "invalid"
        else:
            ending = "return:" + (kinds[-1] if kinds else "?")
    else:
        ending = ":".join(str(x) for x in path.end)
    if ctor == "Token::new_control_sequence" and par:
        ctor = "Token::new_control_sequence:par"
    return (ctor, state, end_line, ending), caret


def r3_1(F, R):
    R.rule("R3.1", "Lexer::next specialised on every (CatCode, State) pair (48 cells, exhaustive) yields exactly TeX's scanner table "
                   "(TeX: The Program §§344-355): token constructor, next state, line finished, ending; only the Superscript cells may be data-dependent")
    fn = _one(F, "texlang::token::lexer::Lexer::next")
    cats = F.enums[CAT]
    states = F.enums[ST]
    if len(cats) != 16 or len(states) != 3:
        raise AnchorError("R3.1: CatCode has %d variants, State %d" % (len(cats), len(states)))
    calls = TOKEN_CTORS + ["RawLexer::end_line", "Lexer::read_control_sequence", "RawLexer::maybe_apply_caret_notation",
                           "Interner::get_or_intern", "RawLexer::start_new_line"]
    n = 0
    for cname, cd, cvi in cats:
        for sname, sd, svi in states:
            e = EDT(F, fn, type_assume={CAT: cvi, ST: svi}, interesting_calls=calls, interesting_fields=["state"],
                    call_models={"texlang::token::lexer::RawLexer::next": _some_model}, record_aggs=[LEXRES])
            paths = e.run()
            got = set()
            data_dep = False
            for p in paths:
                s, caret = summarise(p, e)
                got.add(s)
                if p.forks:
                    data_dep = True
            want = reference_cell(cname, sname)
            n += 1
            inst = "(%s,%s)" % (cname, sname)
            loc = "%s:%d" % (fn.file, fn.line)
            if data_dep and cname != "Superscript":
                R.violation("R3.1", inst + "/data-dependent", "cell %s of Lexer::next depends on an untracked value (%s): TeX's scanner decides it from category and state alone" % (
                    inst, [f[3] for p in paths for f in p.forks][:2]), loc)
            elif got == want:
                R.ok("R3.1", inst, sorted(str(x) for x in got), loc, how="edt")
            else:
                R.violation("R3.1", inst, "cell %s of Lexer::next is %s but TeX's scanner (§§344-355) requires %s" % (inst, sorted(map(str, got)), sorted(map(str, want))), loc)
    R.floor("R3.1", "scanner cells", n, 48)
    # the None arm: raw lexer exhausted => state := NewLine before anything else
    e = EDT(F, fn, interesting_calls=["RawLexer::start_new_line"], interesting_fields=["state"],
            call_models={"texlang::token::lexer::RawLexer::next": lambda s, a, t: ("agg", "core::option::Option", [], 0, "None")})
    paths = e.run()
    okk = bool(paths)
    for p in paths:
        evs = [(ev[0], ev[1], ev[2]) for ev in p.events]
        if not evs or evs[0][0] != "store" or "NewLine" not in str(evs[0][2]):
            okk = False
        if not any(ev[0] == "call" and ev[1] == "RawLexer::start_new_line" for ev in p.events):
            okk = False
    if okk:
        R.ok("R3.1", "(line exhausted)", "state := NewLine then start_new_line on all %d paths" % len(paths), "%s:%d" % (fn.file, fn.line), how="edt")
    else:
        R.violation("R3.1", "(line exhausted)", "when the current line is exhausted Lexer::next must set state = NewLine and start a new line first (TeX §343/§360); paths: %s" % [p.events for p in paths][:2], "%s:%d" % (fn.file, fn.line))


def r3_2(F, R):
    R.rule("R3.2", "read_control_sequence specialised on the first character's category: Letter|Space -> SkipBlanks, otherwise MidLine (TeX §354); "
                   "end of line -> empty name, NewLine")
    fn = _one(F, "texlang::token::lexer::Lexer::read_control_sequence")
    n = 0
    for cname, cd, cvi in F.enums[CAT]:
        e = EDT(F, fn, type_assume={CAT: cvi}, interesting_calls=["RawLexer::maybe_apply_caret_notation", "Lexer::read_control_sequence"],
                call_models={"texlang::token::lexer::RawLexer::next": _some_model})
        paths = e.run()
        states = set()
        for p in paths:
            if p.end[0] != "return":
                continue
            if any(ev[0] == "call" and ev[1] == "Lexer::read_control_sequence" for ev in p.events):
                continue  # the recursive ^^ re-scan
            r = p.ret
            if r and r[0] == "t" and len(r[1]) == 2 and r[1][1][0] == "agg":
                states.add(r[1][1][4])
            else:
                states.add("?")
        want = {"SkipBlanks"} if cname in ("Letter", "Space") else {"MidLine"}
        n += 1
        inst = "first=%s" % cname
        if states == want:
            R.ok("R3.2", inst, sorted(states), "%s:%d" % (fn.file, fn.line), how="edt")
        else:
            R.violation("R3.2", inst, "after a control sequence whose first character has category %s the state is %s; TeX §354 requires %s" % (cname, sorted(states), sorted(want)), "%s:%d" % (fn.file, fn.line))
    R.floor("R3.2", "follow-state cells", n, 16)


def r3_3(F, R):
    R.rule("R3.3", "numbering tables agree: CatCode::try_from(k) = variant with discriminant k for k<=15 and Err above (k = 0..=255, exhaustive); "
                   "Token::new_<x>, Value::new and Value::char_and_cat_code map each category to the same token kind")
    fn = _one(F, "<texlang::types::catcode::CatCode as core::convert::TryFrom<u8>>::try_from", exact=False)
    by_d = {d: name for name, d, vi in F.enums[CAT]}
    # TeX's numbering §207
    tex = ["Escape", "BeginGroup", "EndGroup", "MathShift", "AlignmentTab", "EndOfLine", "Parameter", "Superscript", "Subscript",
           "Ignored", "Space", "Letter", "Other", "Active", "Comment", "Invalid"]
    for k, name in enumerate(tex):
        if by_d.get(k) != name:
            R.violation("R3.3", "discr:%d" % k, "CatCode discriminant %d is %s, TeX §207 numbers it %s" % (k, by_d.get(k), name), None)
        else:
            R.ok("R3.3", "discr:%d" % k, name, None, how="adt")
    bad = 0
    for k in range(256):
        e = EDT(F, fn, arg_assume={1: C(k)})
        paths = e.run()
        res = set()
        for p in paths:
            r = p.ret
            if r and r[0] == "agg":
                if r[4] == "Ok" and r[2] and r[2][0][0] == "agg":
                    res.add("Ok:" + r[2][0][4])
                else:
                    res.add(r[4])
            else:
                res.add("?")
        want = {"Ok:" + tex[k]} if k < 16 else {"Err"}
        if res == want:
            R.ok("R3.3", "try_from(%d)" % k, sorted(res), "%s:%d" % (fn.file, fn.line), how="edt")
        else:
            bad += 1
            R.violation("R3.3", "try_from(%d)" % k, "CatCode::try_from(%d) gives %s, expected %s" % (k, sorted(res), sorted(want)), "%s:%d" % (fn.file, fn.line))
    # sibling token-kind tables
    kind_of_cat = {"BeginGroup": "BeginGroup", "EndGroup": "EndGroup", "MathShift": "MathShift", "AlignmentTab": "AlignmentTab",
                   "Parameter": "Parameter", "Superscript": "Superscript", "Subscript": "Subscript", "Space": "Space",
                   "Letter": "Letter", "Other": "Other", "Active": "CommandRef"}
    ctor_of_cat = {"BeginGroup": "new_begin_group", "EndGroup": "new_end_group", "MathShift": "new_math_shift", "AlignmentTab": "new_alignment_tab",
                   "Parameter": "new_parameter", "Superscript": "new_superscript", "Subscript": "new_subscript", "Space": "new_space",
                   "Letter": "new_letter", "Other": "new_other", "Active": "new_active_character"}
    vnew = _one(F, "texlang::token::Value::new")
    for cname, cd, cvi in F.enums[CAT]:
        e = EDT(F, vnew, type_assume={CAT: cvi}, record_aggs=[VALUE])
        paths = e.run()
        kinds = set()
        for p in paths:
            if p.end[0] == "return":
                ks = [ev[2] for ev in p.events if ev[0] == "agg" and ev[1] == VALUE]
                kinds.add(ks[-1] if ks else "?")
            else:
                kinds.add("panic")
        want = {kind_of_cat[cname]} if cname in kind_of_cat else {"panic"}
        if kinds == want:
            R.ok("R3.3", "Value::new(%s)" % cname, sorted(kinds), "%s:%d" % (vnew.file, vnew.line), how="edt")
        else:
            R.violation("R3.3", "Value::new(%s)" % cname, "Value::new maps category %s to %s, the lexer's table maps it to %s" % (cname, sorted(kinds), sorted(want)), "%s:%d" % (vnew.file, vnew.line))
    for cname, ctor in ctor_of_cat.items():
        f = _one(F, "texlang::token::Token::" + ctor)
        e = EDT(F, f, record_aggs=[VALUE])
        paths = e.run()
        kinds = {([ev[2] for ev in p.events if ev[0] == "agg" and ev[1] == VALUE] or ["?"])[-1] for p in paths}
        if kinds == {kind_of_cat[cname]}:
            R.ok("R3.3", "Token::%s" % ctor, sorted(kinds), "%s:%d" % (f.file, f.line), how="edt")
        else:
            R.violation("R3.3", "Token::%s" % ctor, "Token::%s builds %s, expected Value::%s" % (ctor, sorted(kinds), kind_of_cat[cname]), "%s:%d" % (f.file, f.line))
    # inverse table
    inv = _one(F, "texlang::token::Value::char_and_cat_code")
    vvars = F.enums[VALUE]
    for vname, vd, vvi in vvars:
        e = EDT(F, inv, type_assume={VALUE: vvi, "texlang::token::CommandRef": 1}, record_aggs=[CAT])
        paths = e.run()
        cats = set()
        for p in paths:
            cs = [ev[2] for ev in p.events if ev[0] == "agg" and ev[1] == CAT]
            cats.add(cs[-1] if cs else "none")
        want = None
        for c, kname in kind_of_cat.items():
            if kname == vname:
                want = {c}
        if vname == "CommandRef":
            want = {"Active"}
        if want is None:
            want = {"none"}
        if cats == want:
            R.ok("R3.3", "char_and_cat_code(%s)" % vname, sorted(cats), "%s:%d" % (inv.file, inv.line), how="edt")
        else:
            R.violation("R3.3", "char_and_cat_code(%s)" % vname, "Value::%s reports category %s, expected %s" % (vname, sorted(cats), sorted(want)), "%s:%d" % (inv.file, inv.line))


def r3_4(F, R):
    R.rule("R3.4", "in every RawLexer method the cursor (`pos`) and the trace key range advance together on every path "
                   "(store to pos <-> KeyRange::next/advance_by); peek touches neither; `end` is the audited exception")
    audited = {"texlang::token::lexer::RawLexer::end": "abandons the source: no further token is produced from it",
               "texlang::token::lexer::RawLexer::new": "construction"}
    n = 0
    for fn in F.fns.values():
        if not (fn.impl and fn.impl.get("self_adt") == "texlang::token::lexer::RawLexer" and not fn.impl.get("trait")):
            continue
        nm = strip_generics(fn.name)
        pos_blocks = []
        for bi, b in enumerate(fn.blocks):
            for st in b["s"]:
                if st["k"] == "=" and st["lhs"]["p"] and field_path(st["lhs"]) == ["pos"] and st["lhs"]["l"] == 1:
                    pos_blocks.append(bi)
        defs = Defs(fn)
        key_blocks = []
        for bi, t in fn.calls():
            g = callee_generic(t) or ""
            if g in ("texlang::token::trace::KeyRange::next", "texlang::token::trace::KeyRange::advance_by"):
                key_blocks.append(bi)
        if not pos_blocks and not key_blocks:
            continue
        n += 1
        loc = "%s:%d" % (fn.file, fn.line)
        if nm in audited:
            R.ok("R3.4", nm, "audited: " + audited[nm], loc, how="audited")
            continue
        bad = None
        for pb in set(pos_blocks):
            # path entry -> pb avoiding key blocks, and pb -> return avoiding key blocks
            if pb in key_blocks:
                continue
            p1 = find_path(fn, [0], lambda b: b == pb, blocked=[k for k in key_blocks])
            p2 = find_path(fn, [pb], lambda b: is_return(fn, b), blocked=[k for k in key_blocks])
            if p1 is not None and p2 is not None:
                bad = "the cursor is moved at %s on a path that never advances the trace key" % fn.loc(fn.blocks[pb]["t"])
        for kb in set(key_blocks):
            if kb in pos_blocks:
                continue
            p1 = find_path(fn, [0], lambda b: b == kb, blocked=pos_blocks)
            p2 = find_path(fn, [kb], lambda b: is_return(fn, b), blocked=pos_blocks)
            if p1 is not None and p2 is not None:
                bad = "the trace key advances at %s on a path that never moves the cursor" % fn.loc(fn.blocks[kb]["t"])
        if bad:
            R.violation("R3.4", nm, "%s: %s — every later token of the line would be traced to the wrong column" % (fn.name, bad), loc)
        else:
            R.ok("R3.4", nm, "pos stores %d, key advances %d, paired on all paths" % (len(pos_blocks), len(key_blocks)), loc, how="co-update")
    R.floor("R3.4", "RawLexer methods moving cursor or key", n, 5)
    # peek touches neither
    pk = _one(F, "texlang::token::lexer::RawLexer::peek")
    touched = False
    for bi, b in enumerate(pk.blocks):
        for st in b["s"]:
            if st["k"] == "=" and st["lhs"]["p"] and "pos" in field_path(st["lhs"]):
                touched = True
    for bi, t in pk.calls():
        if (callee_generic(t) or "") in ("texlang::token::trace::KeyRange::next", "texlang::token::trace::KeyRange::advance_by"):
            touched = True
    if touched:
        R.violation("R3.4", "RawLexer::peek", "RawLexer::peek moves the cursor or consumes a trace key", "%s:%d" % (pk.file, pk.line))
    else:
        R.ok("R3.4", "RawLexer::peek", "touches neither cursor nor key", "%s:%d" % (pk.file, pk.line), how="co-update")


def r3_5(F, R):
    R.rule("R3.5", "the unsafe in-place byte write of the ^^ reduction is unreachable when either ASCII check fails "
                   "(specialising each is_ascii result to false), and it is the only unsafe block in the lexer")
    fn = _one(F, "texlang::token::lexer::RawLexer::maybe_apply_caret_notation")
    writes = [bi for bi, t in fn.calls() if strip_generics(callee_name(t) or "").endswith("as_bytes_mut")]
    if not writes:
        raise AnchorError("R3.5: as_bytes_mut call not found")
    checks = [(bi, t) for bi, t in fn.calls() if strip_generics(callee_name(t) or "").endswith("is_ascii")]
    R.floor("R3.5", "is_ascii guards", len(checks), 2)
    dom = dominators(fn)
    for i, (bi, t) in enumerate(checks):
        inst = "is_ascii#%d" % i
        if not all(bi in dom[w] for w in writes):
            R.violation("R3.5", inst + "/dom", "the ASCII check at %s does not dominate the unsafe byte write" % fn.loc(t), fn.loc(t))
            continue
        e = EDT(F, fn, interesting_calls=["as_bytes_mut"], follow_try_continue=False)
        paths = e.run(start=t["t"], env={t["dest"]["l"]: C(0)})
        reach = [p for p in paths if any(ev[0] == "call" and ev[1] == "as_bytes_mut" for ev in p.events)]
        if reach:
            R.violation("R3.5", inst, "the unsafe byte write is reachable when the ASCII check at %s is false: a multi-byte character would be "
                        "overwritten in place, breaking the line's UTF-8 structure" % fn.loc(t), fn.loc(t))
        else:
            R.ok("R3.5", inst, "write unreachable on the false outcome (%d paths explored)" % len(paths), fn.loc(t), how="edt+dominator")
    ub = [u for u in F.unsafe_blocks if "token::lexer" in u["name"]]
    if len(ub) == 1:
        R.ok("R3.5", "unsafe-inventory", "1 unsafe block in token::lexer", "%s:%d" % (ub[0]["file"], ub[0]["line"]), how="inventory")
    else:
        R.violation("R3.5", "unsafe-inventory", "token::lexer has %d unsafe blocks, audited: 1" % len(ub), None)


def _stores_are_char_counts(fn, field):
    """every value stored into `self.<field>` in fn is built from constants, Chars::count and differences `a.len() - b.len()` where b is
    `a.trim_*_matches(c)` for a constant ASCII character c (each trimmed character is one byte, so the difference counts characters)"""
    D = Defs(fn)

    def recv(o, depth=6):
        p = op_place(o)
        for _ in range(depth):
            if p is None:
                return None
            d = D.single(p["l"])
            if d is None or d[0] != "st" or d[3]["k"] != "=" or p["p"] not in ([], ["*"]):
                return (p["l"], tuple(str(e) for e in p["p"]))
            rv = d[3]["rv"]
            if rv["k"] == "ref":
                p = rv["pl"]
                if p["p"] == ["*"]:
                    p = {"l": p["l"], "p": []}
                continue
            if rv["k"] == "use":
                p = op_place(rv["op"])
                continue
            return (p["l"], ())
        return None

    def len_of(o):
        p = op_place(o)
        d = D.single(p["l"]) if p is not None and not p["p"] else None
        if d and d[0] == "call" and strip_generics(callee_name(d[3]) or "").endswith("str>::len") and d[3]["args"]:
            return d[3]["args"][0]
        return None

    def trim_diff(a, b):
        sa, sb = len_of(a), len_of(b)
        if sa is None or sb is None:
            return False
        rb = op_place(sb)
        for _ in range(4):
            if rb is None:
                return False
            d = D.single(rb["l"])
            if d is None:
                return False
            if d[0] == "call":
                t = d[3]
                n = strip_generics(callee_name(t) or "").split("::")[-1]
                if n in ("trim_end_matches", "trim_start_matches", "trim_matches") and len(t["args"]) == 2:
                    c = (t["args"][1].get("c") or {}) if isinstance(t["args"][1], dict) else {}
                    return c.get("ty") == "char" and 0 <= c.get("int", 999) < 128 and recv(t["args"][0]) is not None and recv(t["args"][0]) == recv(sa)
                return False
            if d[3]["k"] == "=" and d[3]["rv"]["k"] in ("use",):
                rb = op_place(d[3]["rv"]["op"])
                continue
            if d[3]["k"] == "=" and d[3]["rv"]["k"] == "ref":
                rb = {"l": d[3]["rv"]["pl"]["l"], "p": []}
                continue
            return False
        return False

    def ok(o, depth=10, seen=()):
        p = op_place(o)
        if p is None:
            return True
        if p["p"] and isinstance(p["p"][-1], dict) and p["p"][-1].get("n") == field:
            return True   # the field itself (`self.f = self.f.saturating_sub(1)`)
        if depth == 0 or p["l"] in seen:
            return False
        if fn.local_ty(p["l"]) not in ("usize", "(usize, bool)") and not fn.local_ty(p["l"]).startswith("("):
            return False
        dl = D.defs.get(p["l"], [])
        if not dl or 1 <= p["l"] <= fn.argc:
            return False
        for d in dl:
            if d[0] == "call":
                n = strip_generics(callee_name(d[3]) or "").split("::")[-1]
                if n in ("saturating_sub", "saturating_add", "min", "max", "wrapping_add") and all(ok(a, depth - 1, seen + (p["l"],)) for a in d[3]["args"]):
                    continue
                if n != "count":
                    return False
                continue
            rv = d[3].get("rv", {})
            k = rv.get("k")
            if k == "use":
                if not ok(rv["op"], depth - 1, seen + (p["l"],)):
                    return False
            elif k == "bin" and rv["op"] in ("Add", "AddWithOverflow"):
                if not (ok(rv["a"], depth - 1, seen + (p["l"],)) and ok(rv["b"], depth - 1, seen + (p["l"],))):
                    return False
            elif k == "bin" and rv["op"] in ("Sub", "SubWithOverflow"):
                if not trim_diff(rv["a"], rv["b"]):
                    return False
            elif k == "agg":
                for a in rv["ops"]:
                    pa = op_place(a)
                    if pa is not None and fn.local_ty(pa["l"]) != "usize":
                        continue   # the non-numeric half of a tuple
                    if not ok(a, depth - 1, seen + (p["l"],)):
                        return False
            else:
                return False
        return True
    stores = [st for b in fn.blocks for st in b["s"] if st["k"] == "=" and st["lhs"]["p"] and isinstance(st["lhs"]["p"][-1], dict) and st["lhs"]["p"][-1].get("n") == field]
    if not stores:
        return False
    for st in stores:
        if st["rv"]["k"] != "use" or not ok(st["rv"]["op"]):
            return False
    return True


def r3_6(F, R):
    from ..dataflow import Flow
    R.rule("R3.6", "unit discipline of trace keys: one key per character — every argument of KeyRange::advance_by in the raw lexer derives from a "
                   "character count (Chars::count, or a counter of single characters), never from a byte length or byte offset (`len()`, `pos`)")
    n = 0
    for fn in F.fns.values():
        if not (fn.impl and fn.impl.get("self_adt") == "texlang::token::lexer::RawLexer"):
            continue
        flow = None
        for bi, t in fn.calls():
            if (callee_generic(t) or "") != "texlang::token::trace::KeyRange::advance_by":
                continue
            n += 1
            flow = flow or Flow(fn)
            og = flow.operand_origins(t["args"][1])
            calls = {strip_generics(v).split("::")[-1] for k, v in og if k == "call" and v}
            fields = {v for k, v in og if k == "field"}
            inst = "%s@advance_by#%d" % (strip_generics(fn.name), n)
            byteish = ("len" in calls) or ("pos" in fields) or ("next_line" in fields) or ("len_utf8" in calls)
            charish = ("count" in calls) or ("num_trimmed_right" in fields)
            if byteish and "count" not in calls and _stores_are_char_counts(fn, "num_trimmed_right"):
                # `line.len() - line.trim_end_matches(' ').len()` (+ constants): the number of trailing one-byte characters, a character count
                R.ok("R3.6", inst, "character count: length difference around a trim by an ASCII character, plus constants", fn.loc(t), how="def-use")
                continue
            if byteish and "count" not in calls:
                R.violation("R3.6", inst, "%s advances the trace keys by a byte quantity (origins: calls %s, fields %s): after non-ASCII text every later token of the "
                            "file is traced to the wrong column or line" % (fn.name, sorted(calls & {"len", "len_utf8"}), sorted(fields & {"pos", "next_line"})), fn.loc(t))
            elif charish:
                R.ok("R3.6", inst, "character count (%s)" % ("Chars::count" if "count" in calls else "num_trimmed_right"), fn.loc(t), how="def-use")
            else:
                R.violation("R3.6", inst, "%s advances the trace keys by a quantity that is not a character count (origins: %s)" % (fn.name, sorted(calls)[:5]), fn.loc(t))
    R.floor("R3.6", "advance_by call sites", n, 3)


STR_CHAR_PATTERN_METHODS = ("find", "rfind", "trim_end_matches", "trim_start_matches", "trim_matches", "split_once", "rsplit_once", "strip_suffix", "strip_prefix",
                            "ends_with", "starts_with", "contains", "split", "rsplit", "split_terminator", "split_inclusive", "matches", "match_indices")


def r3_7(F, R):
    R.rule("R3.7", "line trimming looks at characters only through equality with ' ' and '\\n' (TeX §31 removes trailing spaces, nothing else): every "
                   "predicate applied to a source character in RawLexer::start_new_line is Eq/Ne with one of those two constants, or len_utf8")
    fn = _one(F, "texlang::token::lexer::RawLexer::start_new_line")
    char_locals = {i for i, (ty, nm) in enumerate(fn.locals) if ty == "char"}
    consts = set()
    bad = []
    for bi, b in enumerate(fn.blocks):
        for st in b["s"]:
            if st["k"] == "=" and st["rv"]["k"] == "bin":
                rv = st["rv"]
                pa, pb = op_place(rv["a"]), op_place(rv["b"])
                ca, cb = rv["a"].get("c", {}), rv["b"].get("c", {})
                involved = (pa is not None and pa["l"] in char_locals) or (pb is not None and pb["l"] in char_locals)
                if not involved:
                    continue
                if rv["op"] in ("Eq", "Ne"):
                    for c in (ca, cb):
                        if c.get("ty") == "char" and "int" in c:
                            consts.add(c["int"])
                else:
                    bad.append(("%s on a char" % rv["op"], fn.loc(st)))
        t = b["t"]
        if t["k"] == "call":
            n0 = strip_generics(callee_name(t) or "")
            if n0.startswith("core::str::<impl str>::") and n0.split("::")[-1] in STR_CHAR_PATTERN_METHODS:
                pats = [a.get("c") for a in t["args"][1:] if isinstance(a, dict) and a.get("c")]
                if any(c.get("ty") == "char" and "int" in c for c in pats):
                    for c in pats:
                        if c.get("ty") == "char" and "int" in c:
                            consts.add(c["int"])     # `find('\n')`, `trim_end_matches(' ')`: equality with that one character
                else:
                    bad.append((n0.split("::")[-1] + " with a pattern that is not a character constant", fn.loc(t)))
            elif n0.startswith("core::str::<impl str>::") and n0.split("::")[-1] in ("trim", "trim_end", "trim_start", "lines", "split_whitespace", "split_ascii_whitespace",
                                                                                      "trim_ascii", "trim_ascii_end", "trim_ascii_start"):
                bad.append((n0.split("::")[-1], fn.loc(t)))
            for a in t["args"]:
                p = op_place(a)
                if p is not None and not p["p"] and p["l"] in char_locals:
                    n = strip_generics(callee_name(t) or "").split("::")[-1]
                    if n not in ("len_utf8", "push"):
                        bad.append((n, fn.loc(t)))
        if t["k"] == "switch":
            p = op_place(t["op"])
            if p is not None and not p["p"] and p["l"] in char_locals:
                for v, _ in t["ts"]:
                    consts.add(v)
    loc = "%s:%d" % (fn.file, fn.line)
    if bad:
        for what, l in bad:
            R.violation("R3.7", "start_new_line/" + what, "start_new_line classifies source characters with `%s`: characters other than the space are trimmed or kept "
                        "differently from TeX's line-end rule" % what, l)
    elif consts == {32, 10}:
        R.ok("R3.7", "start_new_line", "characters compared only with ' ' and '\\n'", loc, how="predicate-set")
    else:
        R.violation("R3.7", "start_new_line/constants", "start_new_line compares source characters with %s; TeX's rule only distinguishes ' ' (32) and the newline (10)" % sorted(consts), loc)


CHARISH = ("char", "core::option::Option<char>", "&char", "&core::option::Option<char>", "&mut char", "&mut core::option::Option<char>")
# what the scanner may do with a source character besides moving it around and testing an Option for Some/None
CHAR_SINKS = ("alloc::string::String::push", "core::char::methods::<impl char>::len_utf8", "texlang::token::lexer::Config::cat_code",
              "texlang::token::lexer::RawLexer::maybe_apply_caret_notation",
              # presence-preserving adaptors; the closure they run is analysed as part of the scanner
              "core::option::Option::map", "core::option::Option::and_then", "core::option::Option::is_some", "core::option::Option::is_none",
              "<core::option::Option as core::ops::try_trait::Try>::branch") + tuple("texlang::token::" + c for c in TOKEN_CTORS)


def _scanner_fns(F):
    names = ["texlang::token::lexer::Lexer::next", "texlang::token::lexer::Lexer::read_control_sequence",
             "texlang::token::lexer::RawLexer::next", "texlang::token::lexer::RawLexer::peek"]
    out = [_one(F, n) for n in names]
    # closures defined inside them
    for f in F.fns.values():
        if any(f.name.startswith(n + "::{closure") for n in names):
            out.append(f)
    return out


def r3_8(F, R):
    R.rule("R3.8", "the scanner classifies characters by category code only (TeX §§343-355: every decision of get_next is on cat_code(c), "
                   "never on c): in Lexer::next, read_control_sequence, RawLexer::next and RawLexer::peek a source character is only moved, "
                   "wrapped, tested for presence (Some/None), or passed to cat_code / len_utf8 / String::push / a Token constructor / the ^^ "
                   "reducer; it is never compared, cast, matched on or handed to another predicate")
    n = 0
    for fn in _scanner_fns(F):
        ch = {i for i, (ty, nm) in enumerate(fn.locals) if ty in CHARISH}
        bad = []

        def is_ch(o):
            p = op_place(o)
            return p is not None and p["l"] in ch and not any(isinstance(e, dict) and "f" in e for e in p["p"][:0])

        for bi, b in enumerate(fn.blocks):
            for st in b["s"]:
                if st["k"] != "=":
                    continue
                rv = st["rv"]
                if rv["k"] == "bin" and (is_ch(rv["a"]) or is_ch(rv["b"])):
                    bad.append(("%s" % rv["op"], fn.loc(st)))
                elif rv["k"] == "cast" and is_ch(rv["op"]) and fn.local_ty(st["lhs"]["l"]) not in CHARISH:
                    bad.append(("cast to %s" % fn.local_ty(st["lhs"]["l"]), fn.loc(st)))
                elif rv["k"] == "un" and is_ch(rv["a"]):
                    bad.append((rv["op"], fn.loc(st)))
            t = b["t"]
            if t["k"] == "switch":
                p = op_place(t["op"])
                if p is not None and not p["p"] and fn.local_ty(p["l"]) == "char":
                    bad.append(("match on the character", fn.loc(t)))
            if t["k"] == "call":
                cn = strip_generics(callee_name(t) or "")
                for a in t["args"]:
                    if is_ch(a):
                        n += 1
                        g = strip_generics((t.get("callee") or {}).get("fn") or "")
                        if cn not in CHAR_SINKS and g not in CHAR_SINKS:
                            bad.append((cn.split("::")[-1] + "()", fn.loc(t)))
                        break
        inst = fn.name.replace("texlang::token::lexer::", "")
        if bad:
            for what, l in bad:
                R.violation("R3.8", inst + "/" + what, "%s decides on a source character with `%s`: the token stream then depends on the character code, "
                            "not on its category, and differs from TeX under a non-default \\catcode assignment" % (inst, what), l)
        else:
            R.ok("R3.8", inst, "characters only moved, presence-tested or passed to the %d accepted sinks" % len(CHAR_SINKS), "%s:%d" % (fn.file, fn.line), how="use-set")
    R.floor("R3.8", "character-consuming calls in the scanner", n, 20)
    # who may read the raw cursor: next_char bypasses classification
    nc = _one(F, "texlang::token::lexer::RawLexer::next_char")
    callers = set()
    for f in F.fns.values():
        for bi, t in f.calls():
            c = t.get("callee") or {}
            if c.get("id") == nc.id or c.get("rid") == nc.id:
                callers.add(strip_generics(f.name))
    extra = {c for c in callers if not c.startswith("texlang::token::lexer::RawLexer::")}
    if extra:
        R.violation("R3.8", "next_char/callers", "RawLexer::next_char (the unclassified cursor read) is called from %s; only RawLexer's own methods, which attach "
                    "the category code, may read it" % sorted(extra), "%s:%d" % (nc.file, nc.line))
    else:
        R.ok("R3.8", "next_char/callers", sorted(callers), "%s:%d" % (nc.file, nc.line), how="who-may-call")


def r3_9(F, R):
    R.rule("R3.9", "trace keys are demanded only for characters that exist (the tracer hands out len+1 keys; KeyRange::next/peek panic past the "
                   "limit): every KeyRange::next / KeyRange::peek call in the lexer is dominated by the Some arm of an Option<char> test or by a "
                   "successful Option<char>::unwrap, or sits in a closure that receives the character")
    n = 0
    for fn in F.fns.values():
        if not fn.name.startswith("texlang::token::lexer::") or "::tests::" in fn.name:
            continue
        sites = [(bi, t) for bi, t in fn.calls()
                 if strip_generics(callee_name(t) or "") in ("texlang::token::trace::KeyRange::next", "texlang::token::trace::KeyRange::peek")]
        if not sites:
            continue
        dom = dominators(fn)
        witness = set()
        for bi, b in enumerate(fn.blocks):
            t = b["t"]
            if t["k"] == "switch":
                # discriminant of an Option<char>
                p = op_place(t["op"])
                d = Defs(fn).single(p["l"]) if p is not None and not p["p"] else None
                if d and d[0] == "st" and d[3]["k"] == "=" and d[3]["rv"]["k"] == "discr":
                    pl = d[3]["rv"]["pl"]
                    ty = fn.local_ty(pl["l"]) if not pl["p"] else ""
                    if ty == "core::option::Option<char>":
                        for v, tb in t["ts"]:
                            if v == 1:
                                witness.add(tb)
                    # `let c = self.next_char()?;` — the Continue arm of Option<char>'s Try::branch
                    if ty.startswith("core::ops::control_flow::ControlFlow<") and ty.endswith(", char>"):
                        for v, tb in t["ts"]:
                            if v == 0:
                                witness.add(tb)
            if t["k"] == "call" and strip_generics(callee_name(t) or "").endswith("Option::unwrap") and t["args"]:
                p = op_place(t["args"][0])
                if p is not None and not p["p"] and fn.local_ty(p["l"]) == "core::option::Option<char>" and t.get("t") is not None:
                    witness.add(t["t"])
        in_char_closure = "{closure" in fn.name and any(fn.local_ty(i) == "char" for i in range(1, fn.argc + 1))
        for bi, t in sites:
            n += 1
            inst = "%s/%s" % (fn.name.replace("texlang::token::lexer::", ""), strip_generics(callee_name(t)).split("::")[-1])
            if in_char_closure or any(w in dom[bi] for w in witness):
                R.ok("R3.9", inst, "dominated by a character-present test", fn.loc(t), how="dominator")
            else:
                R.violation("R3.9", inst, "%s takes a trace key on a path where no character is known to remain: at the end of the last line the range is "
                            "exhausted and KeyRange panics (`requested more trace keys than are in the range`)" % fn.name, fn.loc(t))
    R.floor("R3.9", "trace key demands", n, 3)


def r3_10(F, R):
    R.rule("R3.10", "a line is what the lexer says it is: only '\\n' ends a line and '\\r' is an ordinary character. The tracer and the lexer "
                    "(texlang::token::trace / lexer) never split the source with std's line iterators (`str::lines`, `split_terminator`, "
                    "`BufRead::lines`), which also strip a '\\r' before '\\n' and so shift every later column of a CR LF file")
    BANNED = ("lines", "split_terminator", "split_inclusive")
    n = 0
    canary = 0
    for fn in sorted(F.fns.values(), key=lambda f: f.name):
        if "::tests::" in fn.name:
            continue
        in_scope = fn.name.startswith("texlang::token::trace::") or fn.name.startswith("texlang::token::lexer::") or fn.name.startswith("<texlang::token::trace::")
        is_canary = fn.name.startswith("texlang::error::display::") or fn.name.startswith("<texlang::error::display::")
        if not (in_scope or is_canary):
            continue
        k = 0
        for bi, t in fn.calls():
            n += 1
            cn = strip_generics(callee_name(t) or "")
            if cn.split("::")[-1] in BANNED and ("core::str::" in cn or "BufRead" in cn):
                if in_scope:
                    R.violation("R3.10", "%s/%s#%d" % (strip_generics(fn.name), cn.split("::")[-1], k), "%s splits the source with std's `%s`, which treats CR LF as one "
                                "line ending: the column, line number and line text reported for tokens after a CR LF line are wrong" % (fn.name, cn.split("::")[-1]), fn.loc(t))
                    k += 1
                else:
                    canary += 1
    R.floor("R3.10", "calls examined", n, 50)
    R.floor("R3.10", "std line iterators recognised in the canary module (error::display)", canary, 1)
    R.ok("R3.10", "token::trace + token::lexer", "no std line iterator (canary recognised: %d)" % canary, None, how="layering")


def r3_11(F, R):
    R.rule("R3.11", "`^^` reduction is all or nothing: RawLexer::maybe_apply_caret_notation returns false only on paths that have consumed nothing "
                    "(no call to advance and no store to the cursor before a `false` result) — its callers treat false as 'the superscript character "
                    "is still there'; at the end of a line TeX leaves `^^` alone (§355)")
    fn = _one(F, "texlang::token::lexer::RawLexer::maybe_apply_caret_notation")
    consume = set()
    for bi, t in fn.calls():
        if strip_generics(callee_name(t) or "").endswith("RawLexer::advance"):
            consume.add(bi)
    for bi, b in enumerate(fn.blocks):
        for st in b["s"]:
            if st["k"] == "=" and (field_path(st["lhs"]) or [None])[-1] == "pos":
                consume.add(bi)
    false_blocks = {bi for bi, b in enumerate(fn.blocks) for st in b["s"]
                    if st["k"] == "=" and st["lhs"]["l"] == 0 and not st["lhs"]["p"] and st["rv"]["k"] == "use" and st["rv"]["op"].get("c", {}).get("int") == 0}
    loc = "%s:%d" % (fn.file, fn.line)
    if not consume or not false_blocks:
        raise AnchorError("R3.11: maybe_apply_caret_notation: %d consuming blocks, %d `false` results" % (len(consume), len(false_blocks)))
    succ = fn.succ()
    bad = None
    for c in consume:
        path = find_path(fn, list(succ[c]), lambda b: b in false_blocks)
        if path:
            bad = (c, path)
            break
    if bad:
        R.violation("R3.11", "maybe_apply_caret_notation/consumed-then-false", "maybe_apply_caret_notation can return false after it has consumed characters (%s -> %s): "
                    "the callers then drop those characters" % (fn.loc(fn.blocks[bad[0]]["t"]), fn.loc(fn.blocks[bad[1][-1]]["t"])), fn.loc(fn.blocks[bad[0]]["t"]))
    else:
        R.ok("R3.11", "maybe_apply_caret_notation", "%d consuming blocks, none reaches a `false` result" % len(consume), loc, how="path")


def _one(F, name, exact=True):
    c = [f for f in F.fns.values() if strip_generics(f.name) == strip_generics(name)]
    if len(c) != 1:
        raise AnchorError("anchor fn %s: %d matches" % (name, len(c)))
    return c[0]


def r3_12(F, R):
    from ..pps_run import run_pps
    R.rule("R3.12", "lexing never panics or exhausts its trace keys: every potential-panic site (explicit panics, unwrap family, assert terminators, "
                    "overflow/bounds checks, curated panicking std calls) of the scanner (token::lexer) and the tracer (token::trace) reachable from "
                    "Lexer::{new, next, end} and Tracer::{register_source_code, trace, trace_end_of_input} is discharged, audited with a per-site "
                    "invariant, or a reproduced finding")
    entries = ["texlang::token::lexer::Lexer::new", "texlang::token::lexer::Lexer::next", "texlang::token::lexer::Lexer::end",
               "texlang::token::trace::Tracer::register_source_code", "texlang::token::trace::Tracer::trace", "texlang::token::trace::Tracer::trace_end_of_input"]
    have = [e for e in entries if [f for f in F.fns.values() if strip_generics(f.name) == e]]
    if len(have) < 5:
        raise AnchorError("R3.12: entry points missing: %s" % (set(entries) - set(have)))
    run_pps(F, R, "R3.12", have, ("K1", "K2", "K3", "K4"), {"texlang.lib"}, crate_scope={"texlang.lib"}, armed=lambda fn, s: True,
            fn_filter=lambda fn: "texlang::token::lexer::" in fn.name or "texlang::token::trace::" in fn.name,
            floor_fns=20, floor_sites=20, what=": any source text must lex without a panic")


def r3_13(F, R):
    R.rule("R3.13", "category codes apply at the moment a character is scanned (TeX §343: cat_code(cur_chr) is read when the character is "
                    "fetched): the category code stored in a RawToken is, on every path, the result of a Config::cat_code call made in the same "
                    "function (or closure) that builds the token — never a value carried over in the lexer's state, a parameter or a constant, "
                    "which would be stale after a \\catcode change between two calls")
    n = 0
    for fn in F.fns.values():
        if not fn.name.startswith("texlang::token::lexer::") or "::tests::" in fn.name or fn.name.startswith("texlang::token::lexer::_::"):
            continue
        D = Defs(fn)
        k_fn = 0
        for bi, b in enumerate(fn.blocks):
            for st in b["s"]:
                if st["k"] != "=" or st["rv"]["k"] != "agg" or not str(st["rv"].get("adt", "")).endswith("lexer::RawToken"):
                    continue
                for o in st["rv"]["ops"]:
                    pl = op_place(o)
                    if pl is None or pl["p"] or not fn.local_ty(pl["l"]).endswith("catcode::CatCode"):
                        if pl is None and "c" in o and "CatCode" in str(o):
                            R.violation("R3.13", fn.name.replace("texlang::token::lexer::", "") + "/const", "a RawToken is built with a constant category code", fn.loc(st))
                        continue
                    n += 1
                    inst = "%s/code#%d" % (fn.name.replace("texlang::token::lexer::", ""), k_fn)
                    k_fn += 1
                    # walk back through copies/moves; every definition must be a cat_code call
                    todo, seen, bad = [pl["l"]], set(), []
                    while todo:
                        l = todo.pop()
                        if l in seen:
                            continue
                        seen.add(l)
                        ds = D.defs.get(l, [])
                        if not ds and 1 <= l <= fn.argc and not ("{closure" in fn.name and l == 1):
                            # a constructor-style helper that is handed the code: every caller in the lexer must hand it a fresh lookup
                            callers = []
                            for g in F.fns.values():
                                if not g.name.startswith("texlang::token::lexer::") or "::tests::" in g.name:
                                    continue
                                for gb, gt in g.calls():
                                    c = gt.get("callee") or {}
                                    if fn.id in (c.get("id"), c.get("rid")) and len(gt.get("args") or []) >= l:
                                        callers.append((g, gt))
                            if not callers:
                                bad.append("an argument (_%d) of a function nobody in the lexer calls" % l)
                            from .common import producers
                            for g, gt in callers:
                                pr = producers(g, Defs(g), gt["args"][l - 1])
                                if not pr or not all(tag == "call" and (name.endswith("Config::cat_code") or name.endswith("::cat_code")) for tag, name, ty in pr):
                                    bad.append("an argument that %s does not take from a cat_code lookup" % g.name)
                            continue
                        if not ds:
                            bad.append("an argument or captured value (_%d)" % l)
                        for d in ds:
                            if d[0] == "call":
                                cn = strip_generics(callee_name(d[3]) or "")
                                if not cn.endswith("Config::cat_code") and not cn.endswith("::cat_code"):
                                    bad.append("the result of %s" % cn)
                            elif d[3]["k"] == "=" and d[3]["rv"]["k"] == "use" and op_place(d[3]["rv"]["op"]) is not None and not op_place(d[3]["rv"]["op"])["p"] and not d[3]["lhs"]["p"]:
                                todo.append(op_place(d[3]["rv"]["op"])["l"])
                            else:
                                bad.append("`%s`" % fn.snippet(d[3])[:60] if hasattr(fn, "snippet") else "a computed or stored value at %s" % fn.loc(d[3]))
                    if bad:
                        R.violation("R3.13", inst, "%s builds a RawToken whose category code comes from %s instead of a fresh Config::cat_code lookup: after a "
                                    "\\catcode change between two calls the character is classified with the old code" % (fn.name, "; ".join(sorted(set(bad)))), fn.loc(st))
                    else:
                        R.ok("R3.13", inst, "category code defined only by Config::cat_code in this function", fn.loc(st), how="provenance")
    R.floor("R3.13", "RawToken constructions with a category code", n, 2)


def r3_14(F, R):
    import json, os
    from .common import narrowing_rule
    aud = json.load(open(os.path.join(os.path.dirname(os.path.dirname(os.path.dirname(os.path.abspath(__file__)))), "tables", "narrowing_audited.json")))

    def in_scope(fn):
        nm = fn.name
        if "::tests::" in nm or "::_::" in nm:
            return False
        return (nm.startswith("texlang::token::lexer::") or nm.startswith("texlang::token::trace::") or nm.startswith("texlang_stdlib::endlinechar::")
                or " as texlang::token::lexer::Config>" in nm)
    narrowing_rule(F, R, "R3.14", "the scanner, the tracer and what the scanner is configured with (the `Config` implementations and \\endlinechar's "
                   "reader): `\\endlinechar` is inactive for every value outside 0..=127 — a value that is truncated before it is range-tested "
                   "(333 -> 'M') appends a character to every line that TeX does not", in_scope, 0, aud)
    n = len([f for f in F.fns.values() if in_scope(f)])
    R.floor("R3.14", "functions of the scanner, tracer and scanner configuration examined", n, 15)


def run(F, R, tier):
    r3_14(F, R)
    r3_13(F, R)
    r3_12(F, R)
    r3_1(F, R)
    r3_2(F, R)
    r3_3(F, R)
    r3_4(F, R)
    r3_5(F, R)
    r3_6(F, R)
    r3_7(F, R)
    r3_8(F, R)
    r3_9(F, R)
    r3_10(F, R)
    r3_11(F, R)
    R.extra["exhaustive"] = True
    return ("Static analysis: finite-domain specialisation of Lexer::next over all 16x3 (category, state) cells, of read_control_sequence over "
            "16 categories and of CatCode::try_from over 256 bytes, compared with tables transcribed from TeX: The Program §§207,343-355; "
            "cursor/trace-key co-update on all paths of every RawLexer method; the unsafe byte write is guarded by both ASCII checks. "
            "Line trimming, \\endlinechar insertion and trace line/column arithmetic are value-level and not decided.")
