"""C18 — box language (partial): converter coverage both ways, and explicit
panic / unwrap sites of the parser and printer."""
import json
import os

from ..cfg import find_path, is_return, diverging_blocks
from ..dataflow import Flow
from ..facts import strip_generics, AnchorError
from .c08 import projections, variant_arms, adt_of_ty, VERIF

TO_LANG = "boxworks::lang::convert::ToBoxLang"
TO_WORKS = "boxworks::lang::convert::ToBoxworks"


def load_drops():
    return json.load(open(os.path.join(VERIF, "tables", "boxlang_drops.json")))


def r18_1(F, R):
    R.rule("R18.1", "converter coverage: every ToBoxLang impl reads every field of its ds type; every ToBoxworks impl initialises every field of the ds "
                    "type from the AST value (not from Default/constants); every enum variant has an arm on both sides; audited drops only "
                    "(tables/boxlang_drops.json, each tied to the property's own exclusions)")
    drops = load_drops()
    n_lang = n_works = 0
    for fn in sorted(F.fns.values(), key=lambda f: f.id):
        if not fn.impl:
            continue
        tr = fn.impl.get("trait")
        if tr == TO_LANG and fn.name.endswith("::to_box_lang"):
            T = fn.impl.get("self_adt")
            if not T or T not in F.adts:
                continue
            adt = F.adts[T]
            loc = "%s:%d" % (fn.file, fn.line)
            if adt["kind"] == "struct":
                n_lang += 1
                read = {field for owner, variant, field, place, node, is_store in projections(fn) if owner == T}
                for cid in F.closures_of(fn.id):
                    read |= {field for owner, variant, field, place, node, is_store in projections(F.fns[cid]) if owner == T}
                lang_impl_types = {f2.impl.get("self_adt") for f2 in F.fns.values() if f2.impl and f2.impl.get("trait") == TO_LANG}
                all_proj = list(projections(fn))
                for cid in F.closures_of(fn.id):
                    all_proj += list(projections(F.fns[cid]))
                for fld in adt["variants"][0]["fields"]:
                    key = "%s.%s/print" % (T, fld["name"])
                    if fld["name"] in read:
                        R.ok("R18.1", key, "read by to_box_lang", loc, how="field-coverage")
                        # a field that is itself a plain workspace struct without its own converter (e.g. common::Glue):
                        # every one of its fields must be read here as well
                        sub = strip_generics(fld["ty"])
                        if sub in F.adts and F.adts[sub]["kind"] == "struct" and sub not in lang_impl_types and not fld["ty"].startswith("alloc::"):
                            sub_read = {field for owner, variant, field, place, node, is_store in all_proj if owner == sub}
                            if not sub_read:
                                continue  # converted as a whole value (e.g. `self.width.into()`), nothing to cross-wire
                            for sf in F.adts[sub]["variants"][0]["fields"]:
                                skey = "%s.%s.%s/print" % (T, fld["name"], sf["name"])
                                if sf["name"] in sub_read:
                                    R.ok("R18.1", skey, "read by to_box_lang", loc, how="field-coverage")
                                elif skey in drops:
                                    R.ok("R18.1", skey, "audited drop: " + drops[skey], loc, how="audited")
                                else:
                                    R.violation("R18.1", skey, "to_box_lang for %s never reads `%s.%s`: another field is printed in its place or it is lost" % (T, fld["name"], sf["name"]), loc)
                    elif key in drops:
                        R.ok("R18.1", key, "audited drop: " + drops[key], loc, how="audited")
                    else:
                        R.violation("R18.1", key, "to_box_lang for %s never reads field `%s`: printing loses it, so print-then-parse cannot return an equal list" % (T, fld["name"]), loc)
            elif adt["kind"] == "enum":
                n_lang += 1
                arms = variant_arms(F, fn, T)
                if not arms:
                    raise AnchorError("R18.1: no match on %s in %s" % (T, fn.name))
                div = diverging_blocks(fn)
                for bi, amap in arms[:1]:
                    for v, tgt in sorted(amap.items()):
                        key = "%s::%s/print" % (T, v)
                        path = find_path(fn, [tgt], lambda b: is_return(fn, b), blocked=div)
                        if fn.blocks[tgt]["t"]["k"] == "unreachable" or path is None:
                            if key in drops:
                                R.ok("R18.1", key, "audited drop: " + drops[key], loc, how="audited")
                            else:
                                R.violation("R18.1", key, "to_box_lang has no working arm for %s::%s (the arm always panics or is missing)" % (T, v), loc)
                        else:
                            R.ok("R18.1", key, "arm reaches a normal exit", loc, how="variant-coverage")
        elif tr == TO_WORKS and fn.name.endswith("::to_boxworks"):
            flow = None
            loc = "%s:%d" % (fn.file, fn.line)
            for b in fn.blocks:
                for st in b["s"]:
                    if st["k"] != "=" or st["rv"]["k"] != "agg" or st["rv"].get("ak") != "adt":
                        continue
                    T = st["rv"]["adt"]
                    if not T.startswith("boxworks::ds::") or T not in F.adts or F.adts[T]["kind"] != "struct":
                        continue
                    n_works += 1
                    flow = flow or Flow(fn)
                    for name, op in zip(st["rv"]["fields"], st["rv"]["ops"]):
                        key = "%s.%s/parse" % (T, name)
                        og = flow.operand_origins(op)
                        derived = any(k == "arg" for k, v in og)
                        if derived:
                            R.ok("R18.1", key, "initialised from the AST value", fn.loc(st), how="field-coverage")
                        elif key in drops:
                            R.ok("R18.1", key, "audited drop: " + drops[key], fn.loc(st), how="audited")
                        else:
                            R.violation("R18.1", key, "to_boxworks builds %s with field `%s` from a constant/default instead of the parsed value: parse loses it" % (T, name), fn.loc(st))
            # enum side: ast enum -> ds enum arms
            T = fn.impl.get("self_adt")
            if T and T in F.adts and F.adts[T]["kind"] == "enum":
                arms = variant_arms(F, fn, T)
                div = diverging_blocks(fn)
                for bi, amap in arms[:1]:
                    for v, tgt in sorted(amap.items()):
                        key = "%s::%s/parse" % (T, v)
                        path = find_path(fn, [tgt], lambda b: is_return(fn, b), blocked=div)
                        if path is None:
                            if key in drops:
                                R.ok("R18.1", key, "audited drop: " + drops[key], loc, how="audited")
                            else:
                                R.violation("R18.1", key, "to_boxworks has no working arm for %s::%s" % (T, v), loc)
                        else:
                            R.ok("R18.1", key, "arm reaches a normal exit", loc, how="variant-coverage")
    R.floor("R18.1", "ToBoxLang impls on ds types", n_lang, 14)
    R.floor("R18.1", "ds aggregates built by ToBoxworks impls", n_works, 10)


def r18_2(F, R, tier):
    from ..pps_run import run_pps
    R.rule("R18.2", "explicit panics and unwrap-family sites reachable from lang::{parse_horizontal_list, parse_hbox, format} and the Display impls of the "
                    "ds types are discharged or findings (thorough: + assert terminators / curated std calls, reported as undecided where not triaged)")
    entries = ["boxworks::lang::parse_horizontal_list", "boxworks::lang::parse_vertical_list", "boxworks::lang::parse_hbox", "boxworks::lang::format",
               "<boxworks::ds::Horizontal as core::fmt::Display>::fmt", "<boxworks::ds::VBox as core::fmt::Display>::fmt"]
    have = []
    for e in entries:
        if [f for f in F.fns.values() if strip_generics(f.name) == e]:
            have.append(e)
    if len(have) < 3:
        raise AnchorError("R18.2: entry points missing: %s" % (set(entries) - set(have)))
    kinds = ("K1", "K2") if tier == "quick" else ("K1", "K2", "K3", "K4")
    run_pps(F, R, "R18.2", have, kinds, {"boxworks.lib", "common.lib"}, crate_scope={"boxworks.lib"},
            armed=lambda fn, s: s.kind in ("K1", "K2"), fn_filter=lambda fn: "boxworks::lang::" in fn.name or "boxworks::ds::" in fn.name,
            floor_fns=80, floor_sites=5, what=": arbitrary text must give a list or located errors")


def run(F, R, tier):
    r18_1(F, R)
    r18_2(F, R, tier)
    return ("Static analysis (partial claim). Decided: the ds<->AST converters cover every field and every variant in both directions (audited drops only, "
            "each tied to the property's stated exclusions), and explicit panic / unwrap sites reachable from the parser, formatter and printers are "
            "discharged or findings. NOT decided: that print and parse are inverse on values (dimension printing is C06's numeric core), formatter idempotence.")
