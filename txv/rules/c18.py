"""C18 — box language (partial): converter coverage both ways, and explicit
panic / unwrap sites of the parser and printer."""
import json
import os

from ..cfg import find_path, is_return, diverging_blocks
from ..dataflow import Flow
from ..facts import strip_generics, AnchorError
from .c08 import projections, variant_arms, adt_of_ty, VERIF

TO_LANG = "boxworks::lang::convert::ToBoxLang"
TO_WORKS = "boxworks::lang::convert::ToBoxworks"


def load_drops():
    return json.load(open(os.path.join(VERIF, "tables", "boxlang_drops.json")))


def r18_1(F, R):
    R.rule("R18.1", "converter coverage: every ToBoxLang impl reads every field of its ds type; every ToBoxworks impl initialises every field of the ds "
                    "type from the AST value (not from Default/constants); every enum variant has an arm on both sides; audited drops only "
                    "(tables/boxlang_drops.json, each tied to the property's own exclusions)")
    drops = load_drops()
    n_lang = n_works = 0
    for fn in sorted(F.fns.values(), key=lambda f: f.id):
        if not fn.impl:
            continue
        tr = fn.impl.get("trait")
        if tr == TO_LANG and fn.name.endswith("::to_box_lang"):
            T = fn.impl.get("self_adt")
            if not T or T not in F.adts:
                continue
            adt = F.adts[T]
            loc = "%s:%d" % (fn.file, fn.line)
            if adt["kind"] == "struct":
                n_lang += 1
                read = {field for owner, variant, field, place, node, is_store in projections(fn) if owner == T}
                for cid in F.closures_of(fn.id):
                    read |= {field for owner, variant, field, place, node, is_store in projections(F.fns[cid]) if owner == T}
                lang_impl_types = {f2.impl.get("self_adt") for f2 in F.fns.values() if f2.impl and f2.impl.get("trait") == TO_LANG}
                all_proj = list(projections(fn))
                for cid in F.closures_of(fn.id):
                    all_proj += list(projections(F.fns[cid]))
                for fld in adt["variants"][0]["fields"]:
                    key = "%s.%s/print" % (T, fld["name"])
                    if fld["name"] in read:
                        R.ok("R18.1", key, "read by to_box_lang", loc, how="field-coverage")
                        # a field that is itself a plain workspace struct without its own converter (e.g. common::Glue):
                        # every one of its fields must be read here as well
                        sub = strip_generics(fld["ty"])
                        if sub in F.adts and F.adts[sub]["kind"] == "struct" and sub not in lang_impl_types and not fld["ty"].startswith("alloc::"):
                            sub_read = {field for owner, variant, field, place, node, is_store in all_proj if owner == sub}
                            if not sub_read:
                                continue  # converted as a whole value (e.g. `self.width.into()`), nothing to cross-wire
                            for sf in F.adts[sub]["variants"][0]["fields"]:
                                skey = "%s.%s.%s/print" % (T, fld["name"], sf["name"])
                                if sf["name"] in sub_read:
                                    R.ok("R18.1", skey, "read by to_box_lang", loc, how="field-coverage")
                                elif skey in drops:
                                    R.ok("R18.1", skey, "audited drop: " + drops[skey], loc, how="audited")
                                else:
                                    R.violation("R18.1", skey, "to_box_lang for %s never reads `%s.%s`: another field is printed in its place or it is lost" % (T, fld["name"], sf["name"]), loc)
                    elif key in drops:
                        R.ok("R18.1", key, "audited drop: " + drops[key], loc, how="audited")
                    else:
                        R.violation("R18.1", key, "to_box_lang for %s never reads field `%s`: printing loses it, so print-then-parse cannot return an equal list" % (T, fld["name"]), loc)
            elif adt["kind"] == "enum":
                n_lang += 1
                arms = variant_arms(F, fn, T)
                if not arms:
                    raise AnchorError("R18.1: no match on %s in %s" % (T, fn.name))
                div = diverging_blocks(fn)
                for bi, amap in arms[:1]:
                    for v, tgt in sorted(amap.items()):
                        key = "%s::%s/print" % (T, v)
                        path = find_path(fn, [tgt], lambda b: is_return(fn, b), blocked=div)
                        if fn.blocks[tgt]["t"]["k"] == "unreachable" or path is None:
                            if key in drops:
                                R.ok("R18.1", key, "audited drop: " + drops[key], loc, how="audited")
                            else:
                                R.violation("R18.1", key, "to_box_lang has no working arm for %s::%s (the arm always panics or is missing)" % (T, v), loc)
                        else:
                            R.ok("R18.1", key, "arm reaches a normal exit", loc, how="variant-coverage")
        elif tr == TO_WORKS and fn.name.endswith("::to_boxworks"):
            flow = None
            loc = "%s:%d" % (fn.file, fn.line)
            for b in fn.blocks:
                for st in b["s"]:
                    if st["k"] != "=" or st["rv"]["k"] != "agg" or st["rv"].get("ak") != "adt":
                        continue
                    T = st["rv"]["adt"]
                    if not T.startswith("boxworks::ds::") or T not in F.adts or F.adts[T]["kind"] != "struct":
                        continue
                    n_works += 1
                    flow = flow or Flow(fn)
                    for name, op in zip(st["rv"]["fields"], st["rv"]["ops"]):
                        key = "%s.%s/parse" % (T, name)
                        og = flow.operand_origins(op)
                        derived = any(k == "arg" for k, v in og)
                        if derived:
                            R.ok("R18.1", key, "initialised from the AST value", fn.loc(st), how="field-coverage")
                        elif key in drops:
                            R.ok("R18.1", key, "audited drop: " + drops[key], fn.loc(st), how="audited")
                        else:
                            R.violation("R18.1", key, "to_boxworks builds %s with field `%s` from a constant/default instead of the parsed value: parse loses it" % (T, name), fn.loc(st))
            # enum side: ast enum -> ds enum arms
            T = fn.impl.get("self_adt")
            if T and T in F.adts and F.adts[T]["kind"] == "enum":
                arms = variant_arms(F, fn, T)
                div = diverging_blocks(fn)
                for bi, amap in arms[:1]:
                    for v, tgt in sorted(amap.items()):
                        key = "%s::%s/parse" % (T, v)
                        path = find_path(fn, [tgt], lambda b: is_return(fn, b), blocked=div)
                        if path is None:
                            if key in drops:
                                R.ok("R18.1", key, "audited drop: " + drops[key], loc, how="audited")
                            else:
                                R.violation("R18.1", key, "to_boxworks has no working arm for %s::%s" % (T, v), loc)
                        else:
                            R.ok("R18.1", key, "arm reaches a normal exit", loc, how="variant-coverage")
    R.floor("R18.1", "ToBoxLang impls on ds types", n_lang, 14)
    R.floor("R18.1", "ds aggregates built by ToBoxworks impls", n_works, 10)


def r18_2(F, R, tier):
    from ..pps_run import run_pps
    R.rule("R18.2", "every potential-panic site (explicit panics, unwrap family, assert terminators, curated panicking std calls) reachable from "
                    "lang::{parse_horizontal_list, parse_hbox, format} and the Display impls of the ds types — in boxworks::lang, boxworks::ds and the "
                    "common crate — is discharged, audited with a per-site invariant, or a reproduced finding")
    entries = ["boxworks::lang::parse_horizontal_list", "boxworks::lang::parse_vertical_list", "boxworks::lang::parse_hbox", "boxworks::lang::format",
               "<boxworks::ds::Horizontal as core::fmt::Display>::fmt", "<boxworks::ds::VBox as core::fmt::Display>::fmt"]
    have = []
    for e in entries:
        if [f for f in F.fns.values() if strip_generics(f.name) == e]:
            have.append(e)
    if len(have) < 3:
        raise AnchorError("R18.2: entry points missing: %s" % (set(entries) - set(have)))
    kinds = ("K1", "K2", "K3", "K4")
    seen18 = run_pps(F, R, "R18.2", have, kinds, {"boxworks.lib", "common.lib"}, crate_scope={"boxworks.lib", "common.lib"},
            armed=lambda fn, s: True, fn_filter=lambda fn: "boxworks::lang::" in fn.name or "boxworks::ds::" in fn.name or fn.crate == "common.lib",
            floor_fns=80, floor_sites=5, what=": arbitrary text must give a list or located errors")
    import json, os
    from .common import recursion_rule
    tab = json.load(open(os.path.join(os.path.dirname(os.path.dirname(os.path.dirname(os.path.abspath(__file__)))), "tables", "recursion_audited.json")))
    from ..pps_run import callgraph
    nrec = recursion_rule(F, R, "R18.10", "the box-language parser, formatter and printers", seen18, {"boxworks.lib", "common.lib"}, tab,
                          cg=callgraph(F, {"boxworks.lib", "common.lib"}), name_filter=lambda f: "boxworks::lang::" in f.name or "boxworks::ds::" in f.name or f.crate == "common.lib")
    R.floor("R18.10", "recursion cycles among the reachable box-language functions", nrec, 3)


def r18_11(F, R):
    from ..cfg import Defs
    from ..dataflow import op_place
    from .common import producers
    R.rule("R18.11", "byte offsets are byte offsets: the source positions the box lexer keeps (Lexer.l, Lexer.u, ClosingParen.source_idx, Str.start, "
                     "Str.end — all used to slice the source string) are never produced from a *character* count: the index of an enumerate() "
                     "over chars(), or a count() of characters. Such a value equals the byte offset only for ASCII text; after a multi-byte "
                     "character the slice is cut at the wrong place (mismatched brackets, or a panic inside a character)")
    SINKS = {("lang::lexer::Lexer", "l"), ("lang::lexer::Lexer", "u"), ("lang::lexer::ClosingParen", "source_idx"), ("lang::Str", "start"), ("lang::Str", "end")}

    def charcount(pr):
        bad = []
        for tag, name, ty in pr:
            if tag != "call":
                continue
            ty = ty or ""
            if name.endswith("Enumerate as core::iter::traits::iterator::Iterator>::next") and "Chars" in ty and "CharIndices" not in ty:
                bad.append("the index of chars().enumerate()")
            if name.split("::")[-1] == "count" and ("Chars" in ty or "CharIndices" in ty):
                bad.append("a count() of characters")
        return bad
    n = 0
    for fn in sorted(F.fns.values(), key=lambda f: f.name):
        if not fn.name.startswith("boxworks::lang::") and "boxworks::lang::" not in fn.name.split(" as ")[0]:
            continue
        if "::tests::" in fn.name:
            continue
        D = None
        k_fn = 0
        for bi, b in enumerate(fn.blocks):
            if b.get("cleanup"):
                continue
            for st in b["s"]:
                if st["k"] != "=":
                    continue
                cands = []
                rv = st["rv"]
                if rv["k"] == "agg" and rv.get("adt"):
                    for fname, o in zip(rv.get("fields") or [], rv["ops"]):
                        if any(str(rv["adt"]).endswith(a) and fname == f for a, f in SINKS):
                            cands.append((str(rv["adt"]).split("::")[-1] + "." + fname, [o]))
                lhs = st["lhs"]
                if lhs["p"] and isinstance(lhs["p"][-1], dict) and "f" in lhs["p"][-1]:
                    base_ty = fn.local_ty(lhs["l"])
                    fname = lhs["p"][-1].get("n")
                    if len([e for e in lhs["p"] if isinstance(e, dict) and "f" in e]) == 1 and any(a in base_ty and fname == f for a, f in SINKS):
                        from ..dataflow import rv_operands
                        cands.append((base_ty.split("::")[-1].split("<")[0] + "." + fname, list(rv_operands(rv))))
                for what, ops in cands:
                    D = D or Defs(fn)
                    n += 1
                    inst = "%s/%s#%d" % (strip_generics(fn.name).replace("boxworks::lang::", ""), what, k_fn)
                    k_fn += 1
                    bad = []
                    for o in ops:
                        bad += charcount(producers(fn, D, o))
                    if bad:
                        R.violation("R18.11", inst, "%s stores %s, a character count, into the byte offset %s: after a multi-byte character the source is sliced "
                                    "at the wrong position" % (fn.name, sorted(set(bad))[0], what), fn.loc(st))
                    else:
                        R.ok("R18.11", inst, "no character count among the producers", fn.loc(st), how="provenance")
    R.floor("R18.11", "stores into byte-offset fields of the box lexer", n, 12)


def r18_3(F, R):
    from ..facts import callee_name
    from ..dataflow import op_place
    from ..pps import Discharger
    R.rule("R18.3", "string escapes: reader and printer agree on the range. The printer escapes through char::escape_debug, which writes `\\u{..}` with up "
                    "to six hex digits (<= 10FFFF); in the lexer's `\\u{` loop the accumulator may only be rejected by char::from_u32 / checked arithmetic — "
                    "a comparison of the accumulator with a constant below 0x10FFF (the largest value before the sixth digit) rejects characters the "
                    "printer emits")
    fn = [f for f in F.fns.values() if strip_generics(f.name) == "<boxworks::lang::lexer::Lexer as core::iter::traits::iterator::Iterator>::next"]
    if len(fn) != 1:
        raise AnchorError("R18.3: Lexer::next: %d matches" % len(fn))
    fn = fn[0]
    D = Discharger(F, fn)
    # the accumulator: a u32 local multiplied by 16 (raw or checked)
    acc = set()
    from_u32 = 0
    digit16 = 0
    fns = [fn] + [F.fns[c] for c in F.closures_of(fn.id)]
    for g in fns:
        for bi, b in enumerate(g.blocks):
            for st in b["s"]:
                if st["k"] == "=" and st["rv"]["k"] == "bin" and st["rv"]["op"].replace("WithOverflow", "") == "Mul":
                    for x, y in ((st["rv"]["a"], st["rv"]["b"]), (st["rv"]["b"], st["rv"]["a"])):
                        if y.get("c", {}).get("int") == 16 and g is fn:
                            s = D.src_local(x)
                            if s is not None and not s["p"]:
                                acc.add(s["l"])
            t = b["t"]
            if t["k"] == "call":
                n = strip_generics(callee_name(t) or "")
                if n.endswith("::checked_mul") and len(t["args"]) == 2 and t["args"][1].get("c", {}).get("int") == 16 and g is fn:
                    s = D.src_local(t["args"][0])
                    if s is not None and not s["p"]:
                        acc.add(s["l"])
                if n.endswith("char::methods::<impl char>::from_u32") or n.endswith("::from_u32"):
                    from_u32 += 1
                if n.endswith("::to_digit") and len(t["args"]) == 2 and t["args"][1].get("c", {}).get("int") == 16:
                    digit16 += 1
    loc = "%s:%d" % (fn.file, fn.line)
    if not acc or not from_u32 or not digit16:
        raise AnchorError("R18.3: escape accumulator not found in Lexer::next (acc=%s, from_u32=%d, to_digit(16)=%d)" % (acc, from_u32, digit16))
    acc_names = {fn.local_name(l) for l in acc} - {None}
    bad = []
    for (bi, tt, ft, op, al, ac, bl, bc) in D._cmp_edges():
        for l, c in ((al, bc), (bl, ac)):
            if l is not None and c is not None and (l in acc or fn.local_name(l) in acc_names) and op in ("Lt", "Le", "Gt", "Ge") and 16 < c < 0x10FFF:
                bad.append((c, fn.loc(fn.blocks[bi]["t"])))
    if bad:
        for c, l in bad:
            R.violation("R18.3", "escape-accumulator/bound:%#x" % c, "the `\\u{..}` accumulator is compared with %#x: values up to 0x10FFF must still accept a further "
                        "digit (six-digit escapes, U+100000..U+10FFFF, are written by the printer), so such characters no longer round-trip" % c, l)
    else:
        R.ok("R18.3", "escape-accumulator", "range decided by char::from_u32 only (accumulator locals %s)" % sorted(acc_names or acc), loc, how="constant-guards")


def r18_4(F, R):
    from ..cfg import normal_exit_avoiding
    from .common import fmt_path
    R.rule("R18.4", "pretty printer mode switch: ArgsPrinter::activate_multiline sets `multiline` on every path that returns Ok — comments and lists rely on "
                    "the following arguments being printed one per line; if the switch is skipped the closing parenthesis lands inside a comment and the "
                    "formatted text parses differently")
    fn = [f for f in F.fns.values() if strip_generics(f.name) == "boxworks::lang::cst::ArgsPrinter::activate_multiline"]
    if len(fn) != 1:
        raise AnchorError("R18.4: activate_multiline: %d matches" % len(fn))
    fn = fn[0]
    ev = set()
    for bi, b in enumerate(fn.blocks):
        for st in b["s"]:
            if st["k"] == "=" and st["lhs"]["p"] and isinstance(st["lhs"]["p"][-1], dict) and st["lhs"]["p"][-1].get("n") == "multiline" \
                    and st["rv"]["k"] == "use" and st["rv"]["op"].get("c", {}).get("int") == 1:
                ev.add(bi)
    if not ev:
        raise AnchorError("R18.4: no `self.multiline = true` in activate_multiline")
    path = normal_exit_avoiding(fn, ev)
    loc = "%s:%d" % (fn.file, fn.line)
    if path and 0 not in ev:
        R.violation("R18.4", "activate_multiline", "activate_multiline can return Ok without switching to multi-line mode (%s)" % fmt_path(fn, path), loc)
    else:
        R.ok("R18.4", "activate_multiline", "`multiline = true` on every normal path", loc, how="must-pass-through")


def r18_5(F, R):
    from ..facts import callee_name
    from ..cfg import Defs, field_path
    R.rule("R18.5", "box lexer cursor discipline (the byte offset `self.l` is what every span and every later `self.s[self.l..]` slice is built from): after a "
                    "character has been taken from the look-ahead iterator, the iterator is not advanced again before `self.l` has been moved (`self.l += "
                    "c.len_utf8()`); an unaccounted character is only allowed as the last thing read before the token is returned. Otherwise every later "
                    "offset is short by that character and slicing can land inside a multi-byte character")
    names = ["<boxworks::lang::lexer::Lexer as core::iter::traits::iterator::Iterator>::next", "boxworks::lang::lexer::Lexer::parse_number"]
    total = 0
    for nm in names:
        fn = [f for f in F.fns.values() if strip_generics(f.name) == nm]
        if len(fn) != 1:
            raise AnchorError("R18.5: %s: %d matches" % (nm, len(fn)))
        fn = fn[0]
        nexts = [bi for bi, t in fn.calls() if strip_generics(callee_name(t) or "") == "<core::str::iter::Chars as core::iter::traits::iterator::Iterator>::next"]
        # blocks that move the cursor: a store to the field `l` of self
        moves = set()
        for bi, b in enumerate(fn.blocks):
            for st in b["s"]:
                if st["k"] == "=" and (field_path(st["lhs"]) or [None])[-1] == "l" and st["lhs"]["l"] == 1:
                    moves.add(bi)
        # the whitespace loop re-creates its iterator from self.s[self.l..] on every round: calls to `chars()` reset the discipline
        resets = {bi for bi, t in fn.calls() if strip_generics(callee_name(t) or "").endswith("<impl str>::chars")}
        total += len(nexts)
        inst = nm.split("::")[-1] if "parse_number" in nm else "Lexer::next"
        bad = None
        for bi in nexts:
            t = fn.blocks[bi]["t"]
            start = t.get("t")
            if start is None:
                continue
            path = find_path(fn, [start], lambda x: x in nexts, blocked=moves | resets)
            if path:
                bad = (bi, path)
                break
        loc = "%s:%d" % (fn.file, fn.line)
        if bad:
            from .common import fmt_path
            R.violation("R18.5", inst, "%s reads a character at %s and can read the next one without having advanced `self.l` (%s)" % (
                nm, fn.loc(fn.blocks[bad[0]]["t"]), fmt_path(fn, bad[1][:6])), fn.loc(fn.blocks[bad[0]]["t"]))
        else:
            R.ok("R18.5", inst, "%d look-ahead reads, %d cursor moves; no read-read path without a move" % (len(nexts), len(moves)), loc, how="path")
    R.floor("R18.5", "look-ahead reads in the box lexer", total, 8)


def _char_consts(fn):
    """character constants a function distinguishes: switch targets on char-typed operands and Eq/Ne comparisons with char constants"""
    from ..dataflow import op_place
    out = set()
    for b in fn.blocks:
        for st in b["s"]:
            if st["k"] == "=" and st["rv"]["k"] == "bin" and st["rv"]["op"] in ("Eq", "Ne", "Le", "Ge", "Lt", "Gt"):
                for o in (st["rv"]["a"], st["rv"]["b"]):
                    c = o.get("c", {})
                    if c.get("ty") == "char" and "int" in c:
                        out.add(c["int"])
        t = b["t"]
        if t["k"] == "switch":
            p = op_place(t["op"])
            if p is not None and (fn.local_ty(p["l"]) == "char" if not p["p"] else (isinstance(p["p"][-1], dict) and p["p"][-1].get("t") == "char")):
                for v, _ in t["ts"]:
                    out.add(v)
    return out


def r18_6(F, R):
    R.rule("R18.6", "the two scanners of the box language agree on what is inside a string: Lexer::build (bracket matching) distinguishes every character "
                    "that delimits a unit for Lexer::next — brackets, '#', newline, '\"', '\\' and, because next reads `\\u{`..`}` as one unit, also 'u', "
                    "'{' and '}'. If build ends a string where next does not, brackets inside strings get paired and a bracket's recorded closing position "
                    "can lie behind the cursor (slice start > end)")
    build = [f for f in F.fns.values() if strip_generics(f.name) == "boxworks::lang::lexer::Lexer::build"]
    nxt = [f for f in F.fns.values() if strip_generics(f.name) == "<boxworks::lang::lexer::Lexer as core::iter::traits::iterator::Iterator>::next"]
    if len(build) != 1 or len(nxt) != 1:
        raise AnchorError("R18.6: Lexer::build / Lexer::next not found")
    cb, cn = _char_consts(build[0]), _char_consts(nxt[0])
    need = {ord(c) for c in '()[]#\n"\\'}
    if ord("}") in cn:
        need |= {ord("u"), ord("{"), ord("}")}
    loc = "%s:%d" % (build[0].file, build[0].line)
    if not ({ord('"'), ord("\\")} <= cn):
        raise AnchorError("R18.6: Lexer::next does not compare with '\"' and '\\' (constants: %s)" % sorted(cn))
    missing = need - cb
    if missing:
        R.violation("R18.6", "Lexer::build/delimiters", "Lexer::build does not distinguish %s, which Lexer::next treats as delimiters inside strings" % sorted(map(chr, missing)), loc)
    else:
        R.ok("R18.6", "Lexer::build/delimiters", "build distinguishes %s" % sorted(map(chr, need)), loc, how="table-agreement")


def r18_7(F, R):
    import json, os
    from .common import narrowing_rule
    aud = json.load(open(os.path.join(os.path.dirname(os.path.dirname(os.path.dirname(os.path.abspath(__file__)))), "tables", "narrowing_audited.json")))
    narrowing_rule(F, R, "R18.7", "the box language (boxworks::lang, boxworks::ds) and common",
                   lambda fn: fn.crate == "common.lib" or "boxworks::lang::" in fn.name or "boxworks::ds::" in fn.name, 8, aud)


def r18_8(F, R):
    from ..facts import callee_name
    from ..dataflow import op_place, origin_calls
    R.rule("R18.8", "the sign of a dimension applies to the whole number: in Lexer::parse_number a negation (unary minus, `* -1`, Neg::neg) whose result "
                    "ends up in a Scaled / InfiniteGlue token negates a value that already contains the fractional part (it derives from "
                    "from_decimal_digits or Scaled::new); negating the integer part alone gives -1.5fil = -0.5fil")
    fn = [f for f in F.fns.values() if strip_generics(f.name) == "boxworks::lang::lexer::Lexer::parse_number"]
    if len(fn) != 1:
        raise AnchorError("R18.8: parse_number: %d matches" % len(fn))
    fn = fn[0]
    flow = Flow(fn)
    negs = []  # (operand, result local, loc)
    for b in fn.blocks:
        for st in b["s"]:
            if st["k"] != "=":
                continue
            rv = st["rv"]
            if rv["k"] == "un" and rv.get("op") == "Neg":
                negs.append((rv["a"], st["lhs"]["l"], fn.loc(st)))
            if rv["k"] == "bin" and rv["op"].replace("WithOverflow", "") == "Mul":
                for x, y in ((rv["a"], rv["b"]), (rv["b"], rv["a"])):
                    if y.get("c", {}).get("int") == -1:
                        negs.append((x, st["lhs"]["l"], fn.loc(st)))
        t = b["t"]
        if t["k"] == "call" and strip_generics(callee_name(t) or "").endswith("Neg>::neg") and t["args"]:
            negs.append((t["args"][0], t["dest"]["l"], fn.loc(t)))
    if len(negs) < 2:
        raise AnchorError("R18.8: %d negations found in parse_number" % len(negs))
    # token aggregates
    scaled_srcs = set()
    for b in fn.blocks:
        for st in b["s"]:
            if st["k"] == "=" and st["rv"]["k"] == "agg" and st["rv"].get("ak") == "adt" and st["rv"]["adt"].endswith("lexer::TokenValue") \
                    and st["rv"]["variant"] in ("Scaled", "InfiniteGlue"):
                for o in st["rv"]["ops"]:
                    for k, v in flow.operand_origins(o):
                        if k == "local":
                            scaled_srcs.add(v)
    n = 0
    bad = []
    for operand, res, loc in negs:
        p = op_place(operand)
        # does the negated value reach a Scaled / InfiniteGlue token?  (the result local, or for `s.0 *= -1` the base it is stored back into)
        reaches = res in scaled_srcs or (p is not None and p["l"] in scaled_srcs)
        if not reaches:
            continue
        n += 1
        oc = origin_calls(flow.operand_origins(operand))
        if not any(x.endswith("::from_decimal_digits") or x.endswith("Scaled::new") for x in oc):
            bad.append(loc)
    loc0 = "%s:%d" % (fn.file, fn.line)
    if bad:
        R.violation("R18.8", "parse_number/sign", "parse_number negates a value that does not contain the fractional part (at %s) and then builds a dimension from "
                    "it: a negative number with a fraction gets the wrong magnitude" % bad[0], bad[0])
    elif n < 1:
        raise AnchorError("R18.8: no negation reaches a Scaled / InfiniteGlue token")
    else:
        R.ok("R18.8", "parse_number/sign", "%d negation(s) reach a dimension token, each over integer + fraction" % n, loc0, how="def-use")


def r18_9(F, R):
    from ..facts import callee_name
    R.rule("R18.9", "characters are counted as characters: a function of boxworks::lang that turns a string into a single `char` (Option<char> / "
                    "Result<char, ..> result) decides 'exactly one character' by iterating `chars()`, never by the byte length `str::len` — a "
                    "ligature or character argument outside ASCII has a UTF-8 length above 1 and would be rejected although the printer wrote it")
    n = 0
    for fn in sorted(F.fns.values(), key=lambda f: f.name):
        if not fn.name.startswith("<char as boxworks::lang::") and not (fn.name.startswith("boxworks::lang::") and fn.local_ty(0) in ("core::option::Option<char>",)):
            continue
        if fn.local_ty(0) != "core::option::Option<char>" and not fn.local_ty(0).startswith("core::result::Result<char"):
            continue
        if not any("str" in fn.local_ty(i) for i in range(1, fn.argc + 1)):
            continue
        n += 1
        calls = [strip_generics(callee_name(t) or "") for bi, t in fn.calls()]
        inst = strip_generics(fn.name).replace("boxworks::lang::", "")
        lens = [c for c in calls if c.endswith("<impl str>::len") or c.endswith("String::len")]
        if lens:
            R.violation("R18.9", inst + "/byte-length", "%s decides on a single character with the byte length `str::len`: any character outside ASCII is "
                        "rejected (its UTF-8 encoding is longer than one byte)" % fn.name, "%s:%d" % (fn.file, fn.line))
        elif any(c.endswith("<impl str>::chars") for c in calls):
            R.ok("R18.9", inst, "iterates chars()", "%s:%d" % (fn.file, fn.line), how="use-set")
        else:
            R.ok("R18.9", inst, "no byte length involved", "%s:%d" % (fn.file, fn.line), how="use-set")
    R.floor("R18.9", "string-to-char conversions in boxworks::lang", n, 1)


def run(F, R, tier):
    r18_1(F, R)
    r18_11(F, R)
    r18_9(F, R)
    r18_8(F, R)
    r18_6(F, R)
    r18_5(F, R)
    r18_3(F, R)
    r18_4(F, R)
    r18_7(F, R)
    r18_2(F, R, tier)
    return ("Static analysis (partial claim). Decided: the ds<->AST converters cover every field and every variant in both directions (audited drops only, "
            "each tied to the property's stated exclusions); every potential-panic site reachable from the parser, formatter and printers is discharged, "
            "audited or a reproduced finding (R18.2); the lexer's cursor discipline (R18.5), the agreement of its two scanners on string boundaries "
            "(R18.6), the escape range shared with the printer (R18.3) and the formatter's mode switch (R18.4). NOT decided: that print and parse are "
            "inverse on values (dimension printing is C06's numeric core), formatter idempotence as a whole.")
