"""C20 — tag uniqueness under any schedule (lock discipline) and the API
surface of the core containers (no mutable bypass)."""
from ..cfg import Defs, dominators, find_path, is_return, field_path
from ..dataflow import Flow, op_place, rv_operands
from ..facts import callee_name, strip_generics, AnchorError
from .common import callee_generic
from . import c01
from .c08 import projections, adt_of_ty

TAG = "texlang::command::Tag"
STATIC = "texlang::command::NEXT_TAG_VALUE"
STAG = "texlang::command::StaticTag"


def _one(F, name):
    c = [f for f in F.fns.values() if strip_generics(f.name) == name]
    if len(c) != 1:
        raise AnchorError("anchor fn %s: %d matches" % (name, len(c)))
    return c[0]


def static_uses(fn, static):
    out = []
    for bi, b in enumerate(fn.blocks):
        for st in b["s"]:
            if st["k"] != "=":
                continue
            for o in rv_operands(st["rv"]):
                if o.get("c", {}).get("static") == static:
                    out.append((bi, st))
        t = b["t"]
        if t["k"] == "call":
            for a in t["args"]:
                if a.get("c", {}).get("static") == static:
                    out.append((bi, t))
    return out


def r20_1(F, R):
    R.rule("R20.1", "Tag::new allocates atomically: one Mutex::lock on NEXT_TAG_VALUE; the value put in the Tag and the value stored back both flow from "
                    "derefs of that one guard; the stored value is checked_add(1)+unwrap of the read value (strictly monotone, no wrap); the guard is not "
                    "dropped between read and write (or: a single atomic fetch_add)")
    fn = _one(F, "texlang::command::Tag::new")
    loc = "%s:%d" % (fn.file, fn.line)
    flow = Flow(fn)
    defs = Defs(fn)
    problems = []
    # alternative accepted shape
    fetch = [bi for bi, t in fn.calls() if strip_generics(callee_name(t) or "").endswith("::fetch_add")]
    locks = [(bi, t) for bi, t in fn.calls() if strip_generics(callee_name(t) or "").endswith("Mutex::lock")]
    if fetch and not locks:
        if len(fetch) == 1:
            R.ok("R20.1", "Tag::new", "single atomic fetch_add", loc, how="atomic")
        else:
            R.violation("R20.1", "Tag::new/fetch_add", "Tag::new performs %d fetch_add operations" % len(fetch), loc)
        return
    if len(locks) != 1:
        problems.append("takes the lock %d times (read and write must happen under one guard)" % len(locks))
    else:
        lb, lt = locks[0]
        if ("static", STATIC) not in flow.operand_origins(lt["args"][0]):
            problems.append("locks something other than NEXT_TAG_VALUE")
        # guard local: a local of MutexGuard type
        guards = [i for i, (ty, _) in enumerate(fn.locals) if ty.startswith("std::sync::poison::mutex::MutexGuard<") or ty.startswith("std::sync::MutexGuard<")]
        if len(guards) != 1:
            problems.append("expected exactly one MutexGuard local, found %d" % len(guards))
        else:
            G = guards[0]
            # Tag aggregate operand flows from deref(&G)
            aggs = [(bi, st) for bi, b in enumerate(fn.blocks) for st in b["s"] if st["k"] == "=" and st["rv"]["k"] == "agg" and st["rv"].get("adt") == TAG]
            if len(aggs) != 1:
                problems.append("constructs %d Tag values" % len(aggs))
            else:
                o = flow.operand_origins(aggs[0][1]["rv"]["ops"][0])
                if ("local", G) not in o:
                    problems.append("the tag's value does not come from the locked counter")
            # store through deref_mut(&mut G)
            stores = []
            for bi, b in enumerate(fn.blocks):
                for st in b["s"]:
                    if st["k"] == "=" and st["lhs"]["p"] and st["lhs"]["p"][0] == "*":
                        base = st["lhs"]["l"]
                        ob = flow.origins(base)
                        if ("local", G) in ob and any(k == "call" and v and "deref_mut" in v for k, v in ob):
                            stores.append((bi, st))
            if len(stores) != 1:
                problems.append("writes the counter back %d times (must be exactly once)" % len(stores))
            else:
                sb, sst = stores[0]
                ov = set()
                for o2 in rv_operands(sst["rv"]):
                    ov |= flow.operand_origins(o2)
                calls = {strip_generics(v) for k, v in ov if k == "call" and v}
                if not any(c.endswith("checked_add") for c in calls):
                    problems.append("the stored value is not `checked_add` of the read value (a wrapping or unchecked add can hand out a tag twice)")
                if ("const", 1) not in ov:
                    problems.append("the increment is not the constant 1")
                if ("local", G) not in ov:
                    problems.append("the stored value does not derive from the value read under the guard")
                if any(c.endswith("wrapping_add") or c.endswith("saturating_add") for c in calls):
                    problems.append("wrapping/saturating add on the counter")
                # guard not dropped before the store
                dom = dominators(fn)
                for bi, b in enumerate(fn.blocks):
                    t = b["t"]
                    if b.get("cleanup"):
                        continue
                    if t["k"] == "drop" and not t["pl"]["p"] and t["pl"]["l"] == G:
                        if sb not in dom.get(bi, ()):
                            problems.append("the guard can be dropped at %s before the counter is written back" % fn.loc(t))
                    if t["k"] == "call" and strip_generics(callee_name(t) or "").endswith("mem::drop"):
                        p = op_place(t["args"][0])
                        if p is not None and p["l"] == G and sb not in dom.get(bi, ()):
                            problems.append("the guard is explicitly dropped at %s before the write-back" % fn.loc(t))
                # aggregate read happens before store (both under guard)
                if aggs and len(aggs) == 1:
                    ab = aggs[0][0]
                    if not (ab == sb or ab in dom[sb] or sb in dom[ab]):
                        problems.append("tag construction and write-back are on different paths")
    if problems:
        for pr in problems:
            R.violation("R20.1", "Tag::new/" + "-".join(pr.split(" ")[:4]), "Tag::new: %s — two threads can obtain the same tag" % pr, loc)
    else:
        R.ok("R20.1", "Tag::new", "one lock, read and checked write-back under one guard, monotone", loc, how="lock-discipline")


def r20_2(F, R):
    R.rule("R20.2", "who-may: NEXT_TAG_VALUE is accessed only in Tag::new; the only Tag aggregate is in Tag::new; Tag implements no forging trait "
                    "(Deserialize/Default/From); StaticTag's cell is touched only by OnceLock::new and get_or_init(Tag::new)")
    n_static = 0
    n_agg = 0
    for fn in F.fns.values():
        nm = strip_generics(fn.name)
        for bi, node in static_uses(fn, STATIC):
            n_static += 1
            if nm != "texlang::command::Tag::new":
                R.violation("R20.2", "static-access:" + nm, "%s accesses the tag counter outside Tag::new" % fn.name, fn.loc(node))
        for bi, b in enumerate(fn.blocks):
            for st in b["s"]:
                if st["k"] == "=" and st["rv"]["k"] == "agg" and st["rv"].get("adt") == TAG:
                    n_agg += 1
                    if nm != "texlang::command::Tag::new":
                        R.violation("R20.2", "tag-construction:" + nm, "%s constructs a Tag directly: it can duplicate an existing tag" % fn.name, fn.loc(st))
                # transmutes / casts into Tag
                if st["k"] == "=" and st["rv"]["k"] == "cast" and st["rv"]["ck"] == "Transmute" and strip_generics(st["rv"]["ty"]) == TAG:
                    R.violation("R20.2", "tag-transmute:" + nm, "%s transmutes a value into a Tag" % fn.name, fn.loc(st))
    R.floor("R20.2", "accesses to NEXT_TAG_VALUE", n_static, 1)
    R.floor("R20.2", "Tag aggregates", n_agg, 1)
    R.ok("R20.2", "static-access", "%d access(es), all in Tag::new" % n_static, None, how="who-may")
    R.ok("R20.2", "tag-construction", "%d aggregate(s), all in Tag::new" % n_agg, None, how="who-may")
    # methods on Tag that return a Tag without taking one (Default, Deserialize, From, a second constructor):
    # harmless iff the value comes from Tag::new() — i.e. the body contains no Tag aggregate/transmute (checked
    # above for every function) and every returned Tag derives from a call to Tag::new or from an argument.
    nm_impl = 0
    for fn in F.fns.values():
        if not (fn.impl and fn.impl.get("self_adt") == TAG):
            continue
        nm_impl += 1
        sig = fn.raw.get("sig", "")
        nm = strip_generics(fn.name)
        if "->" not in sig or nm == "texlang::command::Tag::new":
            continue
        ins, ret = sig.rsplit("->", 1)
        if TAG in ret and TAG not in ins:
            og = Flow(fn).origins(0)
            from_new = any(k == "call" and v and strip_generics(v) in ("texlang::command::Tag::new", "texlang::command::StaticTag::get") for k, v in og)
            if from_new:
                R.ok("R20.2", "method:" + nm, "returns a fresh Tag obtained from Tag::new", "%s:%d" % (fn.file, fn.line), how="def-use")
            else:
                R.violation("R20.2", "forge:" + nm, "%s returns a Tag that neither comes from an argument nor from Tag::new (%s): tags can be forged or duplicated through it" % (fn.name, sig), "%s:%d" % (fn.file, fn.line))
    R.floor("R20.2", "methods implemented on Tag", nm_impl, 5)
    # StaticTag
    a = F.adt(STAG)
    flds = a["variants"][0]["fields"]
    if len(flds) != 1 or not flds[0]["ty"].startswith("std::sync::once_lock::OnceLock<texlang::command::Tag>") or flds[0]["vis"] == "Public":
        R.violation("R20.2", "StaticTag/layout", "StaticTag must wrap a private OnceLock<Tag> (fields: %s)" % [(f["ty"], f["vis"]) for f in flds], "%s:%d" % (a["file"], a["line"]))
    else:
        R.ok("R20.2", "StaticTag/layout", flds[0]["ty"], "%s:%d" % (a["file"], a["line"]), how="adt")
    touch = 0
    for fn in F.fns.values():
        nm = strip_generics(fn.name)
        for owner, variant, field, place, node, is_store in projections(fn):
            if owner == STAG:
                touch += 1
                if nm != "texlang::command::StaticTag::get":
                    R.violation("R20.2", "StaticTag-access:" + nm, "%s reaches into StaticTag's cell" % fn.name, fn.loc(node))
    g = _one(F, "texlang::command::StaticTag::get")
    inits = [(bi, t) for bi, t in g.calls() if strip_generics(callee_name(t) or "").endswith("OnceLock::get_or_init")]
    other = [(bi, t) for bi, t in g.calls() if "OnceLock" in (callee_name(t) or "") and not strip_generics(callee_name(t) or "").endswith("OnceLock::get_or_init")]
    okk = len(inits) == 1 and not other and inits[0][1]["args"][1].get("c", {}).get("fn") == "texlang::command::Tag::new"
    if okk:
        R.ok("R20.2", "StaticTag::get", "OnceLock::get_or_init(Tag::new) only", "%s:%d" % (g.file, g.line), how="who-may")
    else:
        R.violation("R20.2", "StaticTag::get", "StaticTag::get must resolve through a single OnceLock::get_or_init(Tag::new): otherwise two threads can observe different tags for one static", "%s:%d" % (g.file, g.line))
    R.floor("R20.2", "StaticTag cell accesses", touch, 1)


def who_writes(F, adt, fields, allowed, R, rule, what):
    n = 0
    for fn in F.fns.values():
        nm = strip_generics(fn.name)
        for bi, b in enumerate(fn.blocks):
            for st in b["s"]:
                if st["k"] != "=":
                    continue
                hits = []
                rv = st["rv"]
                if rv["k"] in ("ref", "rawptr") and rv["mut"]:
                    hits.append(rv["pl"])
                if st["lhs"]["p"]:
                    hits.append(st["lhs"])
                for pl in hits:
                    for j, e in enumerate(pl["p"]):
                        if isinstance(e, dict) and "f" in e and e["n"] in fields and c01._proj_parent_is(fn, pl, j, adt):
                            n += 1
                            okk = nm in allowed or c01._impl_name(fn) in allowed or c01._is_serde_visitor(fn) or any(nm.startswith(a) for a in allowed if a.endswith("::"))
                            if okk:
                                R.ok(rule, "%s writes %s.%s" % (nm, adt.split("::")[-1], e["n"]), allowed.get(nm) or allowed.get(c01._impl_name(fn)) or "construction/serde", fn.loc(st), how="who-may-write")
                            else:
                                R.violation(rule, "%s/%s" % (nm, e["n"]), "%s mutates %s.%s outside the audited methods: %s" % (fn.name, adt, e["n"], what), fn.loc(st))
    return n


def r20_3(F, R):
    R.rule("R20.3", "API surface of the containers: no mutable access to the scoped map's storage, the matcher's pattern/prefix table or the interner's "
                    "buffers outside their audited methods; accessors return shared references only")
    c01.r1_6(F, R)
    M = "texcraft_stdext::algorithms::substringsearch::Matcher"
    n = who_writes(F, M, ("substring", "prefix_fn"), {M + "::new": "construction (builds the prefix function)", M + "::take_substring": "consumes the matcher"}, R, "R20.3",
                   "the KMP prefix table no longer matches the pattern")
    I = "texcraft_stdext::collections::interner::Interner"
    n2 = who_writes(F, I, ("buffer", "ends", "dedup"), {I + "::get_or_intern": "the only growth path (appends)", "<" + I + " as serde::de::Deserialize>::deserialize": "rebuild",
                                                       "<" + I + " as core::default::Default>::default": "construction"}, R, "R20.3",
                    "interned keys would stop resolving to their strings")
    R.floor("R20.3", "mutable accesses to Interner internals", n2, 2)
    for fn in F.fns.values():
        if fn.impl and fn.impl.get("self_adt") in (M, I) and fn.raw.get("vis") == "Public":
            sig = fn.raw.get("sig", "")
            ret = sig.split("->", 1)[1] if "->" in sig else ""
            nm = strip_generics(fn.name)
            if "&mut" in ret or " mut " in ret:
                R.violation("R20.3", "sig:" + nm, "public method %s returns a mutable reference (%s)" % (fn.name, ret.strip()), "%s:%d" % (fn.file, fn.line))
            else:
                R.ok("R20.3", "sig:" + nm, ret.strip() or "()", "%s:%d" % (fn.file, fn.line), how="signature")


def r20_4(F, R):
    R.rule("R20.4", "scoped map, structural necessary condition of the stack-of-snapshots model: a global insert visits every open group's log "
                    "(loop over the whole group stack, loop-variant element, no early exit, no bypass) — shared with C01 R1.2")
    fn = c01.method(F, c01.GC, "insert")
    sw = c01.scope_switch(fn)
    if not sw:
        raise AnchorError("R20.4: no `match scope` in GroupingContainer::insert")
    for bi, loc_t, glob_t in sw:
        ok, msg, loc = c01.purge_loop_check(F, fn,  glob_t,
                                            lambda ty: ty.startswith("&mut std::collections::HashMap<") or ty.startswith("&mut std::collections::hash::map::HashMap<"),
                                            lambda o: ("field", "groups") in o)
        if ok:
            R.ok("R20.4", "GroupingContainer::insert", msg, loc, how="loop-variance")
        else:
            R.violation("R20.4", "GroupingContainer::insert", "%s: %s" % (fn.name, msg), loc)


def _in_cycle_avoiding(fn, b, avoid):
    """block b lies on a CFG cycle that does not pass through any block of `avoid` (cleanup blocks excluded)"""
    succ = fn.succ()
    seen = set()
    stack = [s for s in succ[b] if s not in avoid]
    while stack:
        x = stack.pop()
        if x == b:
            return True
        if x in seen or x in avoid or fn.blocks[x].get("cleanup"):
            continue
        seen.add(x)
        stack.extend(succ[x])
    return False


def r20_5(F, R):
    IN = "texcraft_stdext::collections::interner"
    R.rule("R20.5", "interner collision chains (structural necessary conditions of 'equal keys exactly for equal strings even when all hashes collide'): "
                    "(a) no chain node is lost: a store to a LinkedList `next` link either stores a value derived from the bucket's previous content "
                    "(mem::replace / take) or overwrites a link known to be None; (b) get_internal returns a key only after comparing the resolved string "
                    "with the query, and otherwise advances along `next` inside a loop; (c) get_or_intern consults get_internal before allocating a key")
    # (a)
    n = 0
    for fn in F.fns.values():
        if not fn.name.startswith(IN + "::") or "::tests::" in fn.name:
            continue
        flow = None
        dom = None
        for bi, b in enumerate(fn.blocks):
            if b.get("cleanup"):
                continue
            for st in b["s"]:
                if st["k"] != "=":
                    continue
                fp = field_path(st["lhs"])
                if not fp or fp[-1] != "next":
                    continue
                # the place must be a field of an existing node (through a reference), not the initialiser of a fresh aggregate
                if "*" not in st["lhs"]["p"]:
                    continue
                n += 1
                flow = flow or Flow(fn)
                og = flow.operand_origins(st["rv"]["op"]) if st["rv"]["k"] == "use" else set()
                calls = {strip_generics(v).split("::")[-1] for k, v in og if k == "call" and v}
                inst = "%s/next-store" % fn.name.replace(IN + "::", "")
                if calls & {"replace", "take", "swap"} or ("field", "next") in og:
                    R.ok("R20.5", inst, "stored link derives from the previous content (%s)" % sorted(calls & {"replace", "take", "swap"} or {"next"}), fn.loc(st), how="def-use")
                    continue
                # tail append: dominated by the None arm of a test on a `next` link
                dom = dom or dominators(fn)
                defs = Defs(fn)
                ok = False
                for b2i, b2 in enumerate(fn.blocks):
                    t2 = b2["t"]
                    if t2["k"] != "switch":
                        continue
                    p = op_place(t2["op"])
                    d = defs.single(p["l"]) if p is not None and not p["p"] else None
                    if d and d[0] == "st" and d[3]["k"] == "=" and d[3]["rv"]["k"] == "discr":
                        rp = defs.resolve_place({"cp": d[3]["rv"]["pl"]})
                        if rp is not None and (field_path(rp) or [None])[-1] == "next":
                            none_t = dict(t2["ts"]).get(0)
                            if none_t is not None and none_t in dom[bi]:
                                ok = True
                if ok:
                    R.ok("R20.5", inst, "overwrites a link tested to be None", fn.loc(st), how="dominator")
                else:
                    R.violation("R20.5", inst, "%s overwrites a chain link with a value that does not contain the previous chain (origins: %s): every key "
                                "already in that hash bucket behind this node is lost, so a colliding string is interned twice" % (fn.name, sorted(calls) or "fresh node"), fn.loc(st))
    R.floor("R20.5", "stores to a chain link", n, 1)
    # (b)
    gi = _one(F, IN + "::Interner::get_internal")
    eqs = [bi for bi, t in gi.calls() if strip_generics(callee_name(t) or "").split("::")[-1] in ("eq", "ne") and any(
        "str" in gi.local_ty(op_place(a)["l"]) for a in t["args"] if op_place(a) is not None)]
    res = [bi for bi, t in gi.calls() if strip_generics(callee_name(t) or "").endswith("Interner::resolve")]
    some_ret = [bi for bi, b in enumerate(gi.blocks) for st in b["s"] if st["k"] == "=" and st["lhs"]["l"] == 0 and st["rv"]["k"] == "agg"
                and st["rv"].get("variant") == "Some"]
    loc = "%s:%d" % (gi.file, gi.line)
    # the iterator form: `successors(first, |n| n.next..).map(|n| n.key).find(|&k| self.resolve(k).unwrap() == s)`
    closures = [F.fns[c] for c in F.closures_of(gi.id)]
    finds = [bi for bi, t in gi.calls() if strip_generics(callee_name(t) or "").split("::")[-1] in ("find", "find_map", "position", "any")]
    succ = [bi for bi, t in gi.calls() if strip_generics(callee_name(t) or "").endswith("iter::successors") or strip_generics(callee_name(t) or "").endswith("sources::successors::successors")]

    def cl_has(pred):
        return [g for g in closures if any(pred(g, tt) for _, tt in g.calls())]
    cmp_cl = cl_has(lambda g, tt: strip_generics(callee_name(tt) or "").split("::")[-1] in ("eq", "ne") and any(
        "str" in g.local_ty(op_place(a)["l"]) for a in tt["args"] if op_place(a) is not None))
    res_cl = cl_has(lambda g, tt: strip_generics(callee_name(tt) or "").endswith("Interner::resolve"))
    next_cl = [g for g in closures for b in g.blocks for st in b["s"] if st["k"] == "=" and st["rv"]["k"] in ("ref", "discr", "use")
               and "next" in (field_path(st["rv"].get("pl") or op_place(st["rv"].get("op", {})) or {"l": 0, "p": []}) or [])]
    iterator_form = bool(finds and succ and not some_ret)
    if iterator_form:
        both = [g for g in cmp_cl if g in res_cl]
        if both:
            R.ok("R20.5", "get_internal/compare", "the key is selected by a find() whose predicate resolves the key and compares the strings", loc, how="callee")
        else:
            R.violation("R20.5", "get_internal/compare", "get_internal selects a key with find() but its predicate does not compare the resolved string with the "
                        "query (equal hashes do not imply equal strings)", loc)
        if next_cl:
            R.ok("R20.5", "get_internal/walk", "iter::successors follows the `next` link", loc, how="callee")
        else:
            R.violation("R20.5", "get_internal/walk", "get_internal does not walk the whole collision chain (successors() does not follow `next`)", loc)
    elif not eqs or not res or not some_ret:
        R.violation("R20.5", "get_internal/compare", "get_internal has %d string comparisons, %d resolve calls, %d `Some(key)` results: a key must only be returned "
                    "after its resolved string was compared with the query (equal hashes do not imply equal strings)" % (len(eqs), len(res), len(some_ret)), loc)
    else:
        dom = dominators(gi)
        bad = [b for b in some_ret if not any(e in dom[b] for e in eqs) or not any(r in dom[b] for r in res)]
        if bad:
            R.violation("R20.5", "get_internal/compare", "get_internal can return a key without comparing its string with the query", gi.loc(gi.blocks[bad[0]]["t"]))
        else:
            R.ok("R20.5", "get_internal/compare", "every Some(key) is dominated by resolve + string equality", loc, how="dominator")
    nxt = [bi for bi, b in enumerate(gi.blocks) for st in b["s"] if st["k"] == "=" and st["rv"]["k"] in ("ref", "discr", "use")
           and "next" in (field_path(st["rv"].get("pl") or op_place(st["rv"].get("op", {})) or {"l": 0, "p": []}) or [])]
    if iterator_form:
        pass
    elif nxt and any(_in_cycle_avoiding(gi, b, set()) for b in nxt):
        R.ok("R20.5", "get_internal/walk", "the `next` link is followed inside a loop", loc, how="cycle")
    else:
        R.violation("R20.5", "get_internal/walk", "get_internal does not walk the whole collision chain (no loop over `next`): a string whose hash collides with "
                    "an earlier one is not found and gets a second key", loc)
    # (d) the de-duplication map is only filled through populate_dedup_map (which keeps colliding keys chained)
    n_ins = 0
    for fn in F.fns.values():
        if not fn.name.startswith(IN + "::") and not fn.name.startswith("<" + IN + "::") or "::tests::" in fn.name:
            continue
        for bi, t in fn.calls():
            cn = strip_generics(callee_name(t) or "")
            if "HashMap" in cn and cn.split("::")[-1] in ("insert", "entry", "extend", "get_mut", "remove") and t["args"]:
                p = op_place(t["args"][0])
                ty = fn.local_ty(p["l"]) if p is not None and not p["p"] else ""
                if "interner::LinkedList<" in ty:
                    n_ins += 1
                    who = strip_generics(fn.name)
                    if who == IN + "::populate_dedup_map":
                        R.ok("R20.5", "dedup-map/%s" % cn.split("::")[-1], "in populate_dedup_map", fn.loc(t), how="who-may-write")
                    else:
                        R.violation("R20.5", "dedup-map/%s@%s" % (cn.split("::")[-1], who.replace(IN + "::", "")), "%s changes the de-duplication map directly with `%s`: "
                                    "only populate_dedup_map keeps strings with equal hashes chained, a plain insert overwrites the earlier ones" % (fn.name, cn.split("::")[-1]), fn.loc(t))
    R.floor("R20.5", "writes to the de-duplication map", n_ins, 1)
    # (c)
    goi = _one(F, IN + "::Interner::get_or_intern")
    calls = {strip_generics(callee_name(t) or "").split("::")[-1]: bi for bi, t in goi.calls()}
    loc = "%s:%d" % (goi.file, goi.line)
    if "get_internal" in calls and "populate_dedup_map" in calls and calls["get_internal"] in dominators(goi)[calls["populate_dedup_map"]]:
        R.ok("R20.5", "get_or_intern/lookup-first", "get_internal dominates populate_dedup_map", loc, how="dominator")
    else:
        R.violation("R20.5", "get_or_intern/lookup-first", "get_or_intern allocates a key without first looking the string up (calls: %s)" % sorted(calls), loc)


def r20_6(F, R):
    M = "texcraft_stdext::algorithms::substringsearch"
    R.rule("R20.6", "streaming matcher (structural necessary condition of 'reports exactly the positions where the pattern ends'): the Knuth-Morris-Pratt "
                    "fallback `state := prefix_fn[state-1]` on a mismatch is iterated — it sits on a cycle of its own (not the outer per-element loop) "
                    "whose condition re-tests the mismatch — both when the prefix function is built (Matcher::new) and when a text element is consumed "
                    "(Search::next); a single fallback step accepts wrong borders for patterns such as `aaab`")
    from .common import same_file_callees

    def iterated_fallback(fn):
        """(prefix_fn lookups, those that sit on an inner cycle whose condition re-tests the mismatch)"""
        flow = Flow(fn)
        outer = {bi for bi, t in fn.calls() if strip_generics(callee_name(t) or "").endswith("Iterator::next") or "::next" in strip_generics(callee_name(t) or "") and "iter" in strip_generics(callee_name(t) or "")}
        fallback = []
        for bi, t in fn.calls():
            n = strip_generics(callee_name(t) or "")
            if "ops::index::Index" in n and n.endswith("::index") and t["args"]:
                og = flow.operand_origins(t["args"][0])
                names = {fn.local_name(v) for k, v in og if k == "local"} | {v for k, v in og if k == "field"}
                if "prefix_fn" in names:
                    fallback.append(bi)
        cmpb = {bi for bi, t in fn.calls() if strip_generics(callee_name(t) or "").split("::")[-1] in ("ne", "eq")}
        looping = [b for b in fallback if _in_cycle_avoiding(fn, b, outer)]
        with_test = [b for b in looping if any(_in_cycle_avoiding(fn, b, outer | {c}) is False for c in cmpb)]
        return fallback, with_test
    for nm in (M + "::Matcher::new", M + "::Search::next"):
        fn0 = _one(F, nm)
        loc = "%s:%d" % (fn0.file, fn0.line)
        inst = nm.replace(M + "::", "")
        # the automaton step may live in a helper of the same file that both call (one level)
        res = [(g, iterated_fallback(g)) for g in [fn0] + same_file_callees(F, fn0)]
        if not any(fb for g, (fb, wt) in res):
            raise AnchorError("R20.6: no prefix_fn lookup in %s or its helpers" % nm)
        good = [(g, fb, wt) for g, (fb, wt) in res if wt]
        if good:
            g, fb, wt = good[0]
            R.ok("R20.6", inst, "fallback at bb%s%s iterated under a re-tested mismatch; %d prefix_fn lookups" % (
                wt, "" if g.id == fn0.id else " of the helper %s" % g.name, len(fb)), loc, how="cycle")
        else:
            R.violation("R20.6", inst, "%s falls back along the prefix function at most once per element (no inner loop around `prefix_fn[..]` that re-tests the "
                        "mismatch): borders of borders are skipped, so the matcher reports wrong positions for patterns with nested borders" % nm, loc)


def r20_8(F, R):
    from ..cfg import Defs
    from .common import producers
    M = "texcraft_stdext::algorithms::substringsearch"
    R.rule("R20.8", "the streaming matcher's state moves only along the automaton: every assignment to the match length `q` in Search::next is `q + 1` "
                    "(one more element matched) or a value read out of the prefix function (a border of what was matched); a constant or any other "
                    "value — e.g. a `q = 0` shortcut on a mismatch — forgets the borders of the partial match and misses matches that start inside it")
    from .common import same_file_callees
    fn0 = _one(F, M + "::Search::next")
    n = 0
    work = [(fn0, False)] + [(g, True) for g in same_file_callees(F, fn0)]
    for fn, is_helper in work:
      D = Defs(fn)
      for bi, b in enumerate(fn.blocks):
        if b.get("cleanup"):
            continue
        for st in b["s"]:
            if st["k"] != "=" or not st["lhs"]["p"]:
                continue
            last = st["lhs"]["p"][-1]
            if is_helper:
                # the state handed to a helper by `&mut`: a store through a `&mut usize` parameter
                if not (st["lhs"]["p"] == ["*"] and 1 <= st["lhs"]["l"] <= fn.argc and fn.local_ty(st["lhs"]["l"]) == "&mut usize"):
                    continue
            elif not (isinstance(last, dict) and last.get("n") == "q"):
                continue
            n += 1
            from ..dataflow import rv_operands
            pr = set()
            for o in rv_operands(st["rv"]):
                pr |= producers(fn, D, o)
            from_prefix = any(tag == "call" and name.endswith("::index") and "usize" in (ty or "") for tag, name, ty in pr)
            from_q = any(tag == "arg" for tag, name, ty in pr)
            inst = "Search::next/q#%d" % n
            if from_prefix or from_q:
                R.ok("R20.8", inst, "q + 1" if from_q and not from_prefix else "prefix function lookup", fn.loc(st), how="provenance")
            else:
                R.violation("R20.8", inst, "Search::next sets the match length to a value that is neither q + 1 nor a prefix-function entry (producers: %s): the "
                            "borders of the partial match are forgotten, so a match that starts inside it is missed" % sorted({x[0] for x in pr}), fn.loc(st))
    R.floor("R20.8", "assignments to the match length in Search::next", n, 3)


def r20_9(F, R):
    from ..cfg import Defs
    from .common import producers, same_file_callees
    M = "texcraft_stdext::algorithms::substringsearch"
    R.rule("R20.9", "the prefix function is computed, not assumed: every value Matcher::new appends to `prefix_fn` is the automaton state reached after "
                    "the next pattern element (a value that depends on the comparisons of the loop), never a constant — a table filled with zeros for "
                    "patterns that merely start and end differently is wrong for every interior border (`aab`, `abac`)")
    fn = _one(F, M + "::Matcher::new")
    n = 0
    for g in [fn] + same_file_callees(F, fn):
        D = Defs(g)
        for bi, t in g.calls():
            cn = strip_generics(callee_name(t) or "")
            if cn.split("::")[-1] != "push" or len(t.get("args") or []) < 2:
                continue
            rp = D.resolve_place(t["args"][0])
            nm = (g.local_name(rp["l"]) if rp is not None else None) or ""
            if "prefix" not in nm:
                continue
            n += 1
            pr = producers(g, D, t["args"][1])
            if all(tag == "const" for tag, name, ty in pr):
                R.violation("R20.9", "Matcher::new/push#%d" % n, "Matcher::new appends a constant to the prefix function: the entry does not depend on the pattern, "
                            "so a border inside the pattern is lost and the matcher misses occurrences that follow a failed partial match", g.loc(t))
            else:
                R.ok("R20.9", "Matcher::new/push#%d" % n, "the appended value is computed (%s)" % sorted({x[0] for x in pr}), g.loc(t), how="provenance")
    R.floor("R20.9", "values appended to the prefix function", n, 1)


def r20_7(F, R):
    GM = "texcraft_stdext::collections::groupingmap"
    R.rule("R20.7", "replaying the scoped map (iter_all): while IterAll::new walks the groups from the innermost outwards, the value a logged key has "
                    "in a group is read from the *accumulated* key_to_val map (what all inner groups saved for it), looked up before the key's "
                    "own entry is recorded; consulting only the adjacent inner group's log loses a key that was overwritten two or more groups "
                    "further in")
    fns = [f for f in F.fns.values() if strip_generics(f.name) == GM + "::IterAll::new"]
    if len(fns) != 1:
        raise AnchorError("R20.7: IterAll::new: %d matches" % len(fns))
    fn = fns[0]
    flow = Flow(fn)
    gets, inserts = [], []
    for bi, t in fn.calls():
        n = strip_generics(callee_name(t) or "")
        if "HashMap" in n and t["args"]:
            og = flow.operand_origins(t["args"][0])
            names = {fn.local_name(v) for k, v in og if k == "local"}
            if "key_to_val" in names:
                if n.endswith("::get"):
                    gets.append(bi)
                if n.endswith("::insert"):
                    inserts.append(bi)
    loc = "%s:%d" % (fn.file, fn.line)
    if not inserts:
        raise AnchorError("R20.7: IterAll::new never records into key_to_val")
    dom = dominators(fn)
    if gets and all(any(g in dom[i] for g in gets) for i in inserts):
        R.ok("R20.7", "IterAll::new", "key_to_val.get dominates key_to_val.insert (%d/%d)" % (len(gets), len(inserts)), loc, how="dominator")
    else:
        R.violation("R20.7", "IterAll::new/accumulated-lookup", "IterAll::new records a key's entry without first looking the key up in the accumulated key_to_val map "
                    "(%d lookups): the value replayed for an outer group is wrong when the key was overwritten in a non-adjacent inner group" % len(gets), loc)


def run(F, R, tier):
    r20_1(F, R)
    r20_7(F, R)
    r20_5(F, R)
    r20_6(F, R)
    r20_8(F, R)
    r20_9(F, R)
    r20_4(F, R)
    r20_2(F, R)
    r20_3(F, R)
    if tier == "thorough":
        from .. import witness
        witness.run(R, ["C20"])
    return ("Static analysis. Tag uniqueness under every schedule is decided by lock discipline in Tag::new (one guard, read and checked write-back, "
            "strictly monotone) plus who-may rules (counter, Tag construction, forging impls, StaticTag's OnceLock). Container clauses: the API "
            "surface (no mutable bypass) and structural necessary conditions (purge loop, interner chain discipline, iterated KMP fallback) are decided; "
            "model equivalence of the scoped map, full interner correctness and exact KMP positions are behavioural and not decided.")
