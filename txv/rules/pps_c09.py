"""R9.4 — potential-panic sites reachable from VM::<StdLibState>::run."""
from ..pps_run import run_pps
from .c09 import INTERP_CRATES

CHA = (set(INTERP_CRATES) | {"common.lib", "texcraft_stdext.lib"}) - {"texcraft_playground.lib", "texcraft.bin"}
ENTRY = ["texlang::vm::VM::run"]
REGISTRY = ["<texlang_stdlib::StdLibState as texlang::vm::HasDefaultBuiltInCommands>::default_built_in_commands"]

# source files whose K3/K4 triage is complete (armed in both tiers)
ARMED_K34_FILES = (
    "crates/texlang-stdlib/src/math.rs", "crates/texlang/src/parse/integer.rs", "crates/texlang/src/parse/dimen.rs",
    "crates/texlang/src/parse/glue.rs", "crates/common/src/lib.rs",
)


def armed(fn, site):
    # since the second triage round every reachable K3/K4 site of the interpreter crates is armed;
    # ARMED_K34_FILES is kept for C06's scope
    return True


def run(F, R, tier):
    R.rule("R9.4", "every potential-panic site (K1 explicit panics, K2 unwrap family everywhere; K3 assert terminators and K4 curated panicking std calls "
                   "in the armed files, others listed as undecided) in a function reachable in the call graph from VM::run through the StdLibState built-in "
                   "registry is discharged by a constant, a checked dominating guard, its type, a size argument or an audited invariant; otherwise it is a finding")
    kinds = ("K1", "K2", "K3", "K4")
    seen1 = run_pps(F, R, "R9.4", ENTRY, kinds, CHA, registry_names=REGISTRY, armed=armed, floor_fns=700, floor_sites=70,
                    what=": the interpreter would crash instead of returning a located error")
    import json, os
    from .common import recursion_rule
    tab = json.load(open(os.path.join(os.path.dirname(os.path.dirname(os.path.dirname(os.path.abspath(__file__)))), "tables", "recursion_audited.json")))
    nrec = recursion_rule(F, R, "R9.7", "the interpreter reachable from VM::run", seen1, {"texlang.lib", "texlang_stdlib.lib", "texcraft_stdext.lib", "common.lib"}, tab)
    R.floor("R9.7", "recursion cycles among the reachable interpreter functions", nrec, 4)
    if tier == "thorough":
        # second registry: the texcraft binary's state (adds \\font, \\nullfont, the repl commands and \\dump);
        # only functions not already covered through the StdLibState registry are examined, in the interpreter crates
        if [f for f in F.fns.values() if f.name == "texcraft::new_vm"]:
            scope = set(INTERP_CRATES) | {"common.lib", "texcraft_stdext.lib"}
            run_pps(F, R, "R9.4", ENTRY, kinds, CHA | {"texcraft.bin"}, registry_names=["texcraft::new_vm"], armed=armed, crate_scope=scope,
                    fn_filter=lambda fn: fn.id not in seen1, floor_fns=5, floor_sites=1,
                    what=" (texcraft binary registry): the interpreter would crash instead of returning a located error")
