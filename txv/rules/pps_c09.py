"""R9.4 — potential-panic sites reachable from VM::<StdLibState>::run."""
from ..pps_run import run_pps
from .c09 import INTERP_CRATES

CHA = (set(INTERP_CRATES) | {"common.lib", "texcraft_stdext.lib"}) - {"texcraft_playground.lib", "texcraft.bin"}
ENTRY = ["texlang::vm::VM::run"]
REGISTRY = ["<texlang_stdlib::StdLibState as texlang::vm::HasDefaultBuiltInCommands>::default_built_in_commands"]

# (kind, module prefix) triples whose K3/K4 triage is complete
ARMED_K34 = (
    "texlang_stdlib::math::", "texlang::parse::integer::", "texlang::parse::dimen::", "texlang::parse::glue::", "common::",
)


def armed(fn, site):
    if site.kind in ("K1", "K2"):
        return True
    from ..facts import strip_generics
    nm = strip_generics(fn.name)
    if nm.startswith("<"):
        nm = nm[1:]
    return nm.startswith(ARMED_K34)


def run(F, R, tier):
    R.rule("R9.4", "every potential-panic site (K1 explicit panics, K2 unwrap family; thorough: K3 assert terminators and K4 curated panicking std calls "
                   "in the armed modules) in a function reachable in the call graph from VM::run through the StdLibState built-in registry is discharged "
                   "by a constant, a checked dominating guard, its type, a size argument or an audited invariant; otherwise it is a finding")
    kinds = ("K1", "K2") if tier == "quick" else ("K1", "K2", "K3", "K4")
    run_pps(F, R, "R9.4", ENTRY, kinds, CHA, registry_names=REGISTRY, armed=armed, floor_fns=700, floor_sites=70,
            what=": the interpreter would crash instead of returning a located error")
