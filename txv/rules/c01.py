"""C01 — group scoping.  Structural necessary conditions (DESIGN §3 C01)."""
from .. import registry
from ..cfg import (Defs, blocks_calling, call_matches, dominators, natural_loops, normal_exit_avoiding,
                   find_path, is_return, field_path, err_blocks, reachable)
from ..dataflow import Flow, op_place, place_locals, rv_operands
from ..facts import callee_name, strip_generics, AnchorError
from .common import (HOOK, GC, SCOPE_TY, callee_generic, callee_ids, recv_fields, ty_is, passes_event, fmt_path)

VM = "texlang::vm::VM"
INTERNAL = "texlang::vm::Internal"
MAP = "texlang::command::map::Map"


def state_graph(F, root):
    """workspace ADTs reachable by field from `root`."""
    seen = []
    stack = [root]
    while stack:
        n = stack.pop()
        if n in seen or n not in F.adts:
            continue
        seen.append(n)
        for v in F.adts[n]["variants"]:
            for f in v["fields"]:
                for a in f["adts"]:
                    stack.append(a)
    return seen


def method(F, adt_name, meth):
    c = [f for f in F.fns.values() if strip_generics(f.name) == adt_name + "::" + meth]
    if len(c) != 1:
        raise AnchorError("method %s::%s: %d matches" % (adt_name, meth, len(c)))
    return c[0]


# ------------------------------------------------------------------ R1.1

def r1_1(F, R):
    R.rule("R1.1", "every GroupingContainer field on the VM state graph is opened in its owner's begin_group and "
                   "closed in its owner's end_group on every normal path; VM::begin_group/end_group call the owners "
                   "and push/pop both save stacks (must-pass-through on the CFG)")
    graph = state_graph(F, VM)
    n_cont = 0
    owners = []
    for name in graph:
        adt = F.adts[name]
        if adt["kind"] != "struct":
            continue
        gfields = [f["name"] for f in adt["variants"][0]["fields"] if ty_is(f["ty"], GC)]
        if not gfields:
            continue
        owners.append(name)
        for meth, gc_meth in (("begin_group", "begin_group"), ("end_group", "end_group")):
            fn = method(F, name, meth)
            defs = Defs(fn)
            for gf in gfields:
                ev = []
                for bi, t in fn.calls():
                    if call_matches(t, [GC + "::" + gc_meth]):
                        base, fp = recv_fields(fn, defs, t)
                        if base == 1 and fp == [gf]:
                            ev.append(bi)
                path = normal_exit_avoiding(fn, ev)
                inst = "%s.%s/%s" % (name, gf, meth)
                if meth == "begin_group":
                    n_cont += 1
                if path is None and ev:
                    R.ok("R1.1", inst, "every normal path of %s calls GroupingContainer::%s on self.%s" % (fn.name, gc_meth, gf), fn.loc(fn.blocks[ev[0]]["t"]), how="must-pass")
                else:
                    R.violation("R1.1", inst,
                                "%s does not call GroupingContainer::%s on its grouped field `%s` on the path %s: "
                                "assignments to that container escape or outlive the TeX group" % (fn.name, gc_meth, gf, fmt_path(fn, path)),
                                "%s:%d" % (fn.file, fn.line))
    R.floor("R1.1", "grouped container fields", n_cont, 2)
    # VM level: owners reachable as fields of VM, and the two Vec save stacks of Internal
    vm_adt = F.adt(VM)
    internal = F.adt(INTERNAL)
    owner_fields = [f["name"] for f in vm_adt["variants"][0]["fields"] if any(ty_is(f["ty"], o) for o in owners)]
    stacks = [f["name"] for f in internal["variants"][0]["fields"]
              if f["ty"].startswith("alloc::vec::Vec<texlang::variable::SaveStackElement<")
              or f["ty"] == "alloc::vec::Vec<core::option::Option<texlang::types::Font>>"]
    R.floor("R1.1", "VM fields holding grouped owners", len(owner_fields), 1)
    R.floor("R1.1", "Vec save stacks in Internal", len(stacks), 2)
    for meth, vec_meth in (("begin_group", "push"), ("end_group", "pop")):
        fn = method(F, VM, meth)
        defs = Defs(fn)
        for of in owner_fields:
            ev = []
            for bi, t in fn.calls():
                g = callee_generic(t) or ""
                if g.endswith("::" + meth) and not g.startswith(VM):
                    base, fp = recv_fields(fn, defs, t)
                    if base == 1 and fp == [of]:
                        ev.append(bi)
            path = normal_exit_avoiding(fn, ev)
            inst = "VM.%s/%s" % (of, meth)
            if path is None and ev:
                R.ok("R1.1", inst, None, fn.loc(fn.blocks[ev[0]]["t"]), how="must-pass")
            else:
                R.violation("R1.1", inst, "%s does not call %s on self.%s on the path %s" % (fn.name, meth, of, fmt_path(fn, path)), "%s:%d" % (fn.file, fn.line))
        for sf in stacks:
            ev = []
            for bi, t in fn.calls():
                if call_matches(t, ["alloc::vec::Vec::" + vec_meth]):
                    base, fp = recv_fields(fn, defs, t)
                    if base == 1 and fp and fp[-1] == sf:
                        ev.append(bi)
            path = normal_exit_avoiding(fn, ev)
            inst = "Internal.%s/%s" % (sf, meth)
            if path is None and ev:
                R.ok("R1.1", inst, None, fn.loc(fn.blocks[ev[0]]["t"]), how="must-pass")
            else:
                R.violation("R1.1", inst, "%s does not %s the save stack `%s` on the path %s" % (fn.name, vec_meth, sf, fmt_path(fn, path)), "%s:%d" % (fn.file, fn.line))
    # callers: the only callers of VM::begin_group/end_group are the ExecutionInput wrappers
    # and run_impl reaches them for `{`/`}` (informational: listed in evidence)


# ------------------------------------------------------------------ R1.2

def scope_switch(fn):
    """(block, local_arm_target, global_arm_target) for `match scope {..}`
    switches on discriminant of a Scope-typed place."""
    out = []
    for bi, b in enumerate(fn.blocks):
        t = b["t"]
        if t["k"] != "switch":
            continue
        p = op_place(t["op"])
        if p is None:
            continue
        # find the discriminant statement defining p in this block
        for st in b["s"]:
            if st["k"] == "=" and st["lhs"]["l"] == p["l"] and st["rv"]["k"] == "discr" and ty_is(st["rv"]["ty"], SCOPE_TY):
                tgt = dict((v, bb) for v, bb in t["ts"])
                # Scope::Local = 0, Scope::Global = 1
                loc_t = tgt.get(0, t["else"])
                glob_t = tgt.get(1, t["else"])
                out.append((bi, loc_t, glob_t))
    return out


def purge_loop_check(F, fn, glob_target, elem_ty_pred, source_pred, _depth=0):
    """On the Global arm: a loop whose element references (type satisfying
    elem_ty_pred) defined inside the loop are all loop-variant, iterating over
    the stack (source_pred over origins of the iterator), passed on every path.
    Returns (ok, message, loc)."""
    dom = dominators(fn)
    region = {b for b in dom if glob_target in dom[b]}
    flow = Flow(fn)
    defs = Defs(fn)
    candidates = []
    for hdr, body in natural_loops(fn):
        if hdr not in region:
            continue
        # iterator `next` calls in the loop
        nexts = []
        for b in body:
            t = fn.blocks[b]["t"]
            if t["k"] == "call":
                n = strip_generics(callee_name(t) or "")
                if n.endswith("::next"):
                    nexts.append((b, t))
        if not nexts:
            continue
        seeds = {t["dest"]["l"] for _, t in nexts}
        tainted = flow.forward_taint(seeds, blocks=body)
        # the iterator must come from the stack
        src_ok = False
        for _, t in nexts:
            o = flow.operand_origins(t["args"][0])
            if source_pred(o):
                src_ok = True
        if not src_ok:
            continue
        # element refs defined in the loop
        elem_defs = []
        for b in body:
            for st in fn.blocks[b]["s"]:
                if st["k"] == "=" and not st["lhs"]["p"] and elem_ty_pred(fn.local_ty(st["lhs"]["l"])):
                    elem_defs.append((st["lhs"]["l"], b, st))
            t = fn.blocks[b]["t"]
            if t["k"] == "call" and not t["dest"]["p"] and elem_ty_pred(fn.local_ty(t["dest"]["l"])):
                elem_defs.append((t["dest"]["l"], b, t))
        candidates.append((hdr, body, tainted, elem_defs))
    # whole-collection idioms: fill / for_each on the stack
    idiom_blocks = []
    for b in region:
        t = fn.blocks[b]["t"]
        if t["k"] == "call":
            n = strip_generics(callee_name(t) or "")
            if n.split("::")[-1] in ("fill", "fill_with", "for_each"):
                if source_pred(flow.operand_origins(t["args"][0])):
                    idiom_blocks.append(b)
    if not candidates and not idiom_blocks and _depth == 0:
        # the arm may delegate to a helper of the same file that holds the loop (an extracted function): the helper as a whole is then
        # held to the same standard, and every path through the arm must call it
        from .common import same_file_callees
        helper_blocks = []
        msgs = []
        for b in sorted(region):
            tb = fn.blocks[b]["t"]
            if tb["k"] != "call":
                continue
            c = tb.get("callee") or {}
            for cid in (c.get("rid"), c.get("id")):
                g = F.fns.get(cid) if cid else None
                if g is not None and g.file == fn.file and g.id != fn.id:
                    okh, msgh, loch = purge_loop_check(F, g, 0, elem_ty_pred, source_pred, _depth=1)
                    if okh:
                        helper_blocks.append(b)
                        msgs.append("%s: %s" % (g.name, msgh))
                    break
        if helper_blocks:
            outside = lambda b: (b not in region) or is_return(fn, b)
            path = find_path(fn, [glob_target], outside, blocked=set(helper_blocks))
            if path is not None and glob_target not in helper_blocks:
                return False, "a path through the Scope::Global arm skips the purge helper: %s" % fmt_path(fn, path), fn.loc(fn.blocks[glob_target]["t"])
            return True, "the arm delegates to a helper — " + "; ".join(msgs), fn.loc(fn.blocks[helper_blocks[0]]["t"])
    if not candidates and not idiom_blocks:
        return False, "the Scope::Global arm contains no loop over the group stack: a global assignment does not purge every open group", fn.loc(fn.blocks[glob_target]["t"])
    # the loop may only end when the iterator is exhausted: any other exit edge is a data-dependent early stop
    for hdr, body, tainted, elem_defs in candidates:
        next_dests = set()
        for b in body:
            tb = fn.blocks[b]["t"]
            if tb["k"] == "call" and strip_generics(callee_name(tb) or "").endswith("::next"):
                next_dests.add(tb["dest"]["l"])
        for b in sorted(body):
            for s in fn.succ()[b]:
                if s in body:
                    continue
                blk = fn.blocks[b]
                okk = False
                if blk["t"]["k"] == "switch":
                    p = op_place(blk["t"]["op"])
                    for st in blk["s"]:
                        if p is not None and st["k"] == "=" and st["lhs"]["l"] == p["l"] and st["rv"]["k"] == "discr" and st["rv"]["pl"]["l"] in next_dests and not st["rv"]["pl"]["p"]:
                            okk = True
                if not okk:
                    return False, ("the purge loop on the Scope::Global arm can stop early at %s (an exit other than iterator exhaustion): groups further "
                                   "out keep their pending restore for the key, which undoes the global assignment when they close" % fn.loc(blk["t"])), fn.loc(blk["t"])
    for hdr, body, tainted, elem_defs in candidates:
        if not elem_defs:
            return False, "loop at bb%d on the Scope::Global arm never takes a reference to a stack element" % hdr, fn.loc(fn.blocks[hdr]["t"])
        for l, b, node in elem_defs:
            if l not in tainted:
                return False, ("loop on the Scope::Global arm accesses the group stack through `_%d` which does not depend on the "
                               "loop's iteration variable (loop-invariant element, e.g. a constant index): only one level is purged" % l), fn.loc(node)
    # every path from the Global arm to the region's exit passes a loop header / idiom
    ev = {c[0] for c in candidates} | set(idiom_blocks)
    outside = lambda b: (b not in region) or is_return(fn, b)
    path = find_path(fn, [glob_target], outside, blocked=ev)
    if path is not None and glob_target not in ev:
        return False, "a path through the Scope::Global arm skips the purge loop: %s" % fmt_path(fn, path), fn.loc(fn.blocks[glob_target]["t"])
    return True, "loop(s) at %s iterate the whole stack with loop-variant element" % sorted(ev), fn.loc(fn.blocks[sorted(ev)[0]]["t"])


def r1_2(F, R):
    R.rule("R1.2", "the three sibling implementations of 'a global assignment erases every pending restore' each loop over "
                   "the whole group stack with a loop-variant element on the Scope::Global arm (sibling agreement)")
    sibs = []
    # (a) GroupingContainer::insert
    f1 = method(F, GC, "insert")
    sibs.append(("GroupingContainer::insert", f1,
                 lambda ty: ty.startswith("&mut std::collections::HashMap<") or ty.startswith("&mut std::collections::hash::map::HashMap<"),
                 lambda o: ("field", "groups") in o))
    # (b) run_impl Font arm
    f2s = [f for f in F.fns.values() if strip_generics(f.name) == "texlang::vm::VM::run_impl"]
    if len(f2s) != 1:
        raise AnchorError("VM::run_impl: %d matches" % len(f2s))
    font_fn = f2s[0]
    if not scope_switch(font_fn):
        # the Font arm may have been extracted into a helper that is only called from run_impl
        cands = [g for g in F.fns.values() if g.file == font_fn.file and g.id != font_fn.id and scope_switch(g)
                 and any(("field", "fonts_save_stack") in Flow(g).operand_origins(a) for bi, t in g.calls() for a in t["args"][:1])
                 and _extracted_from(F, g, {"texlang::vm::VM::run_impl"})]
        if len(cands) == 1:
            font_fn = cands[0]
    sibs.append(("VM::run_impl (Command::Font)", font_fn,
                 lambda ty: ty == "&mut core::option::Option<texlang::types::Font>",
                 lambda o: ("field", "fonts_save_stack") in o))
    # (c) variable::update_save_stack
    f3 = F.fn("texlang::variable::update_save_stack")
    sibs.append(("variable::update_save_stack", f3,
                 lambda ty: ty.startswith("&mut texlang::variable::SaveStackElement<"),
                 lambda o: any(k == "call" and v and strip_generics(v).endswith("ExecutionInput::groups") for k, v in o)
                 or ("field", "save_stack") in o))
    n = 0
    for name, fn, elem_pred, src_pred in sibs:
        sw = scope_switch(fn)
        if not sw:
            raise AnchorError("R1.2: no `match scope` in %s" % fn.name)
        # no normal path may finish without consulting the scope (a "nothing changed" fast path ahead of the
        # dispatch skips the purge of a global assignment); the only sound early-out is "no group is open"
        if not name.startswith("VM::run_impl"):
            flow = Flow(fn)
            empties = set()
            for bi, b in enumerate(fn.blocks):
                t = b["t"]
                if t["k"] == "switch":
                    og = flow.operand_origins(t["op"])
                    calls = {strip_generics(v).split("::")[-1] for k, v in og if k == "call" and v}
                    if calls & {"len", "is_empty"} and src_pred(og):
                        empties.add(bi)
            path = find_path(fn, [0], lambda b: is_return(fn, b), blocked={s[0] for s in sw} | empties | err_blocks(fn))
            if path is not None:
                R.violation("R1.2", name + "/bypass", "%s can return without consulting the assignment's scope (path %s): on that path a global "
                            "assignment leaves the values saved by open groups in place, so a stale value is restored when they close" % (fn.name, fmt_path(fn, path)),
                            fn.loc(fn.blocks[path[-2] if len(path) > 1 else path[0]]["t"]))
            else:
                R.ok("R1.2", name + "/no-bypass", "every normal path reaches the scope dispatch", "%s:%d" % (fn.file, fn.line), how="must-pass")
        for bi, loc_t, glob_t in sw:
            n += 1
            ok, msg, loc = purge_loop_check(F, fn, glob_t, elem_pred, src_pred)
            if ok:
                R.ok("R1.2", name, msg, loc, how="loop-variance")
            else:
                R.violation("R1.2", name, "%s: %s" % (fn.name, msg), loc)
    R.floor("R1.2", "sibling purge implementations", n, 3)


# ------------------------------------------------------------------ R1.3-R1.5

def is_hook_call(t):
    c = t.get("callee")
    if not c:
        return False
    return strip_generics(c["fn"]) == HOOK or (c.get("trait_item_of") == HOOK)


SCOPE_SINKS = [
    "texlang::command::map::Map::insert",
    "texlang::command::map::Map::insert_macro",
    "texlang::command::map::Map::insert_variable_command",
    "texlang::command::map::Map::alias_control_sequence",
    "texlang::command::map::Map::alias_token",
    "texlang::variable::TypedVariable::set",
    "texlang::variable::Variable::set",
    "texlang::variable::Command::set_value_using_input",
    "texlang::variable::set_using_input",
]


def scope_args(fn, t):
    """indices of Scope-typed arguments of a call"""
    out = []
    for i, a in enumerate(t["args"]):
        p = op_place(a)
        if p is not None and not p["p"] and ty_is(fn.local_ty(p["l"]), SCOPE_TY) and not fn.local_ty(p["l"]).startswith("&"):
            out.append(i)
        elif "c" in a and ty_is(a["c"]["ty"], SCOPE_TY):
            out.append(i)
    return out


def consumers(F):
    """functions that call the hook directly"""
    out = []
    for f in F.fns.values():
        for bi, t in f.calls():
            if is_hook_call(t):
                out.append((f, bi, t))
    return out


def r1_345(F, R):
    R.rule("R1.3", "every \\global-prefixable execution primitive (computed from prefix::Tags::default and the getters' with_tag) "
                   "and the Variable/Font arms of VM::run_impl call variable_assignment_scope_hook on every non-fatal path")
    R.rule("R1.4", "every Scope argument handed to a command-map / variable store inside a hook consumer is def-use reachable "
                   "from the hook's result (possibly overridden by a constant under a flag), never a bare constant")
    R.rule("R1.5", "the set of execution primitives that consume the global bit equals the set \\global accepts")
    prims = registry.primitives(F)
    pref = registry.prefixable_statics(F)
    accepted = pref["any"] | pref["global"] | pref["registered"]
    R.extra["prefixable_tag_statics"] = sorted(accepted)
    shipped = [p for p in prims if p.kind == "execution" and not p.getter.startswith(("texlang_testing", "texlang::"))]
    prefixable = [p for p in shipped if p.tags & accepted]
    seen = set()
    n13 = 0
    memo = {}
    for p in sorted(prefixable, key=lambda p: p.fn_name):
        if p.fn_id in seen:
            continue
        seen.add(p.fn_id)
        fn = F.fns.get(p.fn_id)
        if fn is None:
            raise AnchorError("R1.3: primitive body %s missing" % p.fn_name)
        ok, path = passes_event(F, fn, is_hook_call, 3, memo)
        n13 += 1
        if ok:
            R.ok("R1.3", p.fn_name, "all normal paths consume the global bit", "%s:%d" % (fn.file, fn.line), how="must-pass")
        else:
            R.violation("R1.3", p.fn_name, "%s (prefixable through %s) can finish normally without calling variable_assignment_scope_hook: "
                        "the \\global bit leaks to the next assignment; path %s" % (fn.name, sorted(p.tags & accepted), fmt_path(fn, path)),
                        fn.loc(fn.blocks[path[-1]]["t"]) if path else None)
    R.floor("R1.3", "prefixable reified primitives", n13, 5)
    # the two VM arms: blocks of run_impl dominated by the Variable / Font downcast
    run_impl = [f for f in F.fns.values() if strip_generics(f.name) == "texlang::vm::VM::run_impl"][0]
    dom = dominators(run_impl)
    arms = {}
    for bi, b in enumerate(run_impl.blocks):
        for st in b["s"]:
            if st["k"] != "=":
                continue
            for o in rv_operands(st["rv"]):
                pl = op_place(o)
                if pl is None:
                    continue
                for e in pl["p"]:
                    if isinstance(e, dict) and "dc" in e and e["n"] in ("Variable", "Font"):
                        # is it the Command enum?  check by field type of next projection is enough: record first block
                        arms.setdefault(e["n"], bi)
    for arm in ("Variable", "Font"):
        if arm not in arms:
            raise AnchorError("R1.3: Command::%s arm of run_impl not found" % arm)
        start = arms[arm]
        ev = [bi for bi, t in run_impl.calls() if is_hook_call(t)]
        # leaving the arm = reaching a block not dominated by `start`
        region = {b for b in dom if start in dom[b]}
        path = find_path(run_impl, [start], lambda b: b not in region or is_return(run_impl, b), blocked=set(ev) | err_blocks(run_impl))
        inst = "VM::run_impl/Command::%s" % arm
        if path is None:
            R.ok("R1.3", inst, "arm consumes the global bit before leaving", run_impl.loc(run_impl.blocks[start]["t"]), how="must-pass")
        else:
            R.violation("R1.3", inst, "the Command::%s arm of run_impl can complete without calling the scope hook: %s" % (arm, fmt_path(run_impl, path)),
                        run_impl.loc(run_impl.blocks[start]["t"]))
    # R1.4 over every function that calls the hook directly
    cons = consumers(F)
    R.floor("R1.3", "hook call sites in the workspace", len(cons), 9)
    n14 = 0
    for f in sorted({c[0].id for c in cons}):
        fn = F.fns[f]
        if fn.crate.startswith("texlang_testing"):
            continue
        flow = Flow(fn)
        for bi, t in fn.calls():
            g = callee_generic(t) or ""
            sa = scope_args(fn, t)
            if not sa or is_hook_call(t):
                continue
            for i in sa:
                n14 += 1
                o = flow.operand_origins(t["args"][i])
                from_hook = any(k == "call" and v and strip_generics(v) == HOOK for k, v in o)
                inst = "%s -> %s#%d" % (fn.name, g, i)
                if from_hook:
                    R.ok("R1.4", inst, None, fn.loc(t), how="def-use")
                else:
                    R.violation("R1.4", inst, "%s passes a Scope to %s that does not derive from variable_assignment_scope_hook's result (origins: %s): "
                                "\\global would be ignored or forced" % (fn.name, g, sorted(x for x in o if x[0] in ("agg", "const", "arg"))[:4]), fn.loc(t))
        # the Font arm stores by matching on the scope directly
        for bi, lt, gt in scope_switch(fn):
            t = fn.blocks[bi]["t"]
            o = flow.operand_origins(t["op"])
            # discriminant local <- scope local
            n14 += 1
            inst = "%s match scope@switch" % fn.name
            if any(k == "call" and v and strip_generics(v) == HOOK for k, v in o):
                R.ok("R1.4", inst, None, fn.loc(t), how="def-use")
            else:
                R.violation("R1.4", inst, "%s matches on a Scope that does not come from the hook" % fn.name, fn.loc(t))
    R.floor("R1.4", "scope operands in hook consumers", n14, 8)
    # R1.5
    consumer_prims = []
    memo2 = {}
    for p in sorted(shipped, key=lambda p: p.fn_name):
        fn = F.fns.get(p.fn_id)
        if fn is None:
            continue
        if reaches_hook(F, fn, 3, memo2):
            consumer_prims.append(p)
    seen = set()
    n15 = 0
    for p in consumer_prims:
        key = (p.fn_name, p.getter)
        if key in seen:
            continue
        seen.add(key)
        n15 += 1
        fn = F.fns[p.fn_id]
        if p.tags & accepted:
            R.ok("R1.5", "%s via %s" % (p.fn_name, p.getter), "consumes the bit and is accepted by \\global (%s)" % sorted(p.tags & accepted), p.loc, how="set-equality")
        else:
            R.violation("R1.5", p.fn_name, "%s (installed by %s) consumes the \\global bit but carries no tag that prefix::Tags accepts: "
                        "`\\global` before it is a fatal error although it is an assignment TeX allows to be global" % (p.fn_name, p.getter), p.loc)
    for p in prefixable:
        if p not in consumer_prims:
            R.violation("R1.5", p.fn_name + "/accepted-not-consumer", "%s is accepted by \\global but never consumes the bit" % p.fn_name, p.loc)
    R.floor("R1.5", "consumer primitives", n15, 6)


def reaches_hook(F, fn, depth, memo):
    if fn.id in memo:
        return memo[fn.id]
    memo[fn.id] = False
    res = False
    for bi, t in fn.calls():
        if is_hook_call(t):
            res = True
            break
        if depth > 0:
            gid, rid = callee_ids(t)
            g = F.fns.get(rid) or F.fns.get(gid)
            # only same-crate helper functions count as "the primitive's own code"
            if g is not None and g.crate == fn.crate and g.id != fn.id and g.kind != "Closure":
                nm = strip_generics(g.name)
                if nm.startswith(("texlang::vm::", "texlang::parse::")):
                    continue
                if reaches_hook(F, g, depth - 1, memo):
                    res = True
                    break
    memo[fn.id] = res
    return res


# ------------------------------------------------------------------ R1.6

GC_WRITERS = {
    # fn (generic-stripped) : reason
    GC + "::insert": "the scoped insert itself (logs to `groups`)",
    GC + "::begin_group": "pushes a group",
    GC + "::end_group": "pops a group and replays its log",
    "<" + GC + " as core::iter::traits::collect::FromIterator>::from_iter": "construction from (key, value) pairs before any group exists",
    "<" + GC + " as core::default::Default>::default": "construction",
}


def r1_6(F, R):
    R.rule("R1.6", "no mutable bypass of scoped storage: GroupingContainer.{backing_container,groups} are mutably borrowed / "
                   "assigned only in the audited methods; no pub fn of GroupingContainer returns a &mut to them; "
                   "Internal.{save_stack,fonts_save_stack} are mutated only by the group machinery")
    n = 0
    for fn in F.fns.values():
        for bi, b in enumerate(fn.blocks):
            for st in b["s"]:
                if st["k"] != "=":
                    continue
                hits = []
                rv = st["rv"]
                if rv["k"] in ("ref", "rawptr") and rv["mut"]:
                    hits.append(rv["pl"])
                if st["lhs"]["p"]:
                    hits.append(st["lhs"])
                for pl in hits:
                    for j, e in enumerate(pl["p"]):
                        if isinstance(e, dict) and "f" in e and e["n"] in ("backing_container", "groups"):
                            # type of the parent: check the owning local type mentions GroupingContainer
                            if _proj_parent_is(fn, pl, j, GC):
                                n += 1
                                nm = strip_generics(fn.name)
                                nm2 = _impl_name(fn)
                                if nm in GC_WRITERS or nm2 in GC_WRITERS or _is_serde_visitor(fn):
                                    R.ok("R1.6", "%s writes GroupingContainer.%s" % (fn.name, e["n"]), GC_WRITERS.get(nm) or GC_WRITERS.get(nm2) or "derive(Deserialize) construction", fn.loc(st), how="who-may-write")
                                else:
                                    R.violation("R1.6", "%s/%s" % (nm, e["n"]), "%s takes a mutable path to GroupingContainer.%s outside the audited writers: "
                                                "mutations through it are not logged and cannot be rolled back" % (fn.name, e["n"]), fn.loc(st))
    R.floor("R1.6", "mutable accesses to GroupingContainer internals", n, 5)
    # signatures: no pub method of GroupingContainer returns &mut
    m = 0
    for fn in F.fns.values():
        if fn.impl and fn.impl.get("self_adt") == GC and fn.raw.get("vis") == "Public":
            m += 1
            sig = fn.raw.get("sig", "")
            ret = sig.split("->", 1)[1] if "->" in sig else ""
            if "&mut" in ret or ("&'" in ret and " mut " in ret):
                R.violation("R1.6", "sig:" + strip_generics(fn.name), "public method %s returns a mutable reference (%s): scoped storage can be mutated behind the group log" % (fn.name, ret.strip()), "%s:%d" % (fn.file, fn.line))
            else:
                R.ok("R1.6", "sig:" + strip_generics(fn.name), ret.strip() or "()", "%s:%d" % (fn.file, fn.line), how="signature")
    R.floor("R1.6", "public GroupingContainer methods", m, 8)
    # save stacks
    allowed = {
        "texlang::vm::VM::begin_group": "push",
        "texlang::vm::VM::end_group": "pop",
        "texlang::vm::VM::run_impl": "Command::Font arm (R1.2 sibling)",
        "texlang::vm::streams::ExecutionInput::groups": "accessor used by update_save_stack (R1.2 sibling)",
        "texlang::vm::streams::ExecutionInput::current_group_mut": "accessor used by update_save_stack",
        "texlang::vm::Internal::new": "construction",
        "texlang::vm::serde::finish_deserialization": "deserialisation (C08)",
    }
    k = 0
    for fn in F.fns.values():
        if not fn.crate.startswith("texlang."):
            continue
        for bi, b in enumerate(fn.blocks):
            for st in b["s"]:
                if st["k"] != "=":
                    continue
                hits = []
                rv = st["rv"]
                if rv["k"] in ("ref", "rawptr") and rv["mut"]:
                    hits.append(rv["pl"])
                if st["lhs"]["p"]:
                    hits.append(st["lhs"])
                for pl in hits:
                    fp = field_path(pl)
                    for sf in ("save_stack", "fonts_save_stack"):
                        if sf in fp and _field_owner_is(fn, pl, sf, INTERNAL):
                            k += 1
                            nm = strip_generics(fn.name)
                            ext = None if nm in allowed else _extracted_from(F, fn, set(allowed))
                            if nm in allowed or _is_serde_visitor(fn) or nm.startswith("texlang::vm::serde::"):
                                R.ok("R1.6", "%s mutates Internal.%s" % (nm, sf), allowed.get(nm, "serde"), fn.loc(st), how="who-may-write")
                            elif ext:
                                R.ok("R1.6", "%s mutates Internal.%s" % (nm, sf), "helper only called from %s" % sorted(ext), fn.loc(st), how="who-may-write")
                            else:
                                R.violation("R1.6", "%s/%s" % (nm, sf), "%s mutates Internal.%s outside the group machinery" % (fn.name, sf), fn.loc(st))
    R.floor("R1.6", "mutable accesses to the Vec save stacks", k, 5)


_CALLERS = {}


def _callers_of(F, fid):
    """direct callers (function ids) over the whole-workspace call graph"""
    if not _CALLERS:
        from ..pps_run import callgraph
        cg = callgraph(F, {"texlang.lib", "texlang_stdlib.lib", "texcraft_stdext.lib"})
        for src, dsts in cg.edges.items():
            for d in dsts:
                _CALLERS.setdefault(d, set()).add(src)
    return _CALLERS.get(fid, set())


def _extracted_from(F, fn, allowed_names, depth=2):
    """`fn` is a helper extracted from an allowed function: it is not public API of another module and every caller is an allowed
    function (or, one more level, such a helper itself)"""
    cs = _callers_of(F, fn.id) - {fn.id}
    if not cs:
        return None
    names = set()
    for c in cs:
        g = F.fns.get(c)
        if g is None or g.file != fn.file:
            return None
        nm = strip_generics(g.name)
        if nm in allowed_names:
            names.add(nm)
        elif depth > 1:
            r = _extracted_from(F, g, allowed_names, depth - 1)
            if r is None:
                return None
            names |= r
        else:
            return None
    return names


def _impl_name(fn):
    """`<Adt as Trait>::method` with generics stripped, from impl facts."""
    if fn.impl and fn.impl.get("trait") and fn.impl.get("self_adt"):
        return "<%s as %s>::%s" % (fn.impl["self_adt"], fn.impl["trait"], fn.name.split("::")[-1])
    return None


def _is_serde_visitor(fn):
    return fn.raw.get("mac") in ("Deserialize", "serde::Deserialize", "::serde::Deserialize") or "_::<impl serde_core::de::Deserialize" in fn.name or "__Visitor" in fn.name


def _proj_parent_is(fn, pl, j, adt):
    """type of the place just before projection j mentions `adt`"""
    if j == 0:
        return adt in fn.local_ty(pl["l"])
    # walk back to the previous field projection carrying a type
    for i in range(j - 1, -1, -1):
        e = pl["p"][i]
        if isinstance(e, dict) and "f" in e:
            return ty_is(e["t"], adt)
    return adt in fn.local_ty(pl["l"])


def _field_owner_is(fn, pl, field, adt):
    for j, e in enumerate(pl["p"]):
        if isinstance(e, dict) and "f" in e and e["n"] == field:
            return _proj_parent_is(fn, pl, j, adt)
    return False


# ------------------------------------------------------------------ R1.7

PREFIX_COMPONENT = "texlang_stdlib::prefix::Component"


def r1_7(F, R):
    """The pending-\\global flag as a finite transition system over (sign(\\globaldefs), flag)."""
    from ..edt import EDT, C, UNKNOWN
    from .c08 import projections
    R.rule("R1.7", "the pending-\\global flag is a finite function of (sign of \\globaldefs, flag): the transfer functions of set_scope and "
                   "read_and_reset_global are extracted by finite-domain specialisation (3 sign classes x 2 flag values x 2 arguments, exhaustive) and the "
                   "command-boundary invariant 'flag = Local' plus 'the hook returns TeX's scope' is checked for every command shape "
                   "([\\global] assignment, [\\global]\\globaldefs=v)")
    rr = _one_fn(F, PREFIX_COMPONENT + "::read_and_reset_global")
    ss = _one_fn(F, PREFIX_COMPONENT + "::set_scope")
    # structural precondition: globaldefs is only compared with 0 (so one representative per sign class is exhaustive)
    n_use = 0
    for fn in F.fns.values():
        if fn.crate != "texlang_stdlib.lib":
            continue
        for owner, variant, field, place, node, is_store in projections(fn):
            if owner == PREFIX_COMPONENT and field == "global_defs_value":
                n_use += 1
                nm = strip_generics(fn.name)
                if nm in (PREFIX_COMPONENT + "::read_and_reset_global", PREFIX_COMPONENT + "::set_scope"):
                    continue
                if "get_globaldefs" in nm or c01_is_generated(fn) or nm.endswith("Default>::default"):
                    continue
                raise AnchorError("R1.7: %s uses Component.global_defs_value in an unrecognised way (%s)" % (fn.name, fn.loc(node)))
    for fn in (rr, ss):
        for b in fn.blocks:
            for st in b["s"]:
                if st["k"] == "=" and st["rv"]["k"] == "bin" and st["rv"]["op"] not in ("Eq", "Ne", "Lt", "Le", "Gt", "Ge"):
                    raise AnchorError("R1.7: arithmetic on the flag state in %s" % fn.name)
    R.floor("R1.7", "uses of global_defs_value", n_use, 3)

    def scv(i):
        return ("agg", SCOPE_TY, [], i, ["Local", "Global"][i])

    def flag_after(paths, before):
        outs = set()
        for p in paths:
            if p.end[0] != "return":
                return None
            if p.forks:
                return None
            f = before
            for ev in p.events:
                if ev[0] == "store" and ev[1].split(".")[-1] == "scope":
                    if "Local" in str(ev[2]):
                        f = 0
                    elif "Global" in str(ev[2]):
                        f = 1
                    else:
                        return None
            r = None
            if p.ret is not None and p.ret[0] == "agg" and p.ret[1] == SCOPE_TY:
                r = p.ret[3]
            outs.add((r, f))
        if len(outs) != 1:
            return None
        return outs.pop()

    T_hook = {}
    T_set = {}
    for gd in (-1, 0, 1):
        for fl in (0, 1):
            mem = {"(*_1).global_defs_value": C(gd), "(*_1).scope": scv(fl)}
            e = EDT(F, rr, interesting_fields=["scope"])
            res = flag_after(e.run(mem=dict(mem)), fl)
            if res is None or res[0] is None:
                raise AnchorError("R1.7: read_and_reset_global is not a finite function of (sign, flag) at gd=%d flag=%d" % (gd, fl))
            T_hook[(gd, fl)] = res
            for arg in (0, 1):
                e = EDT(F, ss, interesting_fields=["scope"], arg_assume={2: scv(arg)})
                res = flag_after(e.run(mem=dict(mem)), fl)
                if res is None:
                    raise AnchorError("R1.7: set_scope is not a finite function of (sign, flag, arg) at gd=%d flag=%d arg=%d" % (gd, fl, arg))
                T_set[(gd, fl, arg)] = res[1]
    names = {0: "Local", 1: "Global"}
    loc = "%s:%d" % (rr.file, rr.line)
    n = 0
    for gd in (-1, 0, 1):
        fl = 0  # command-boundary invariant
        for prefixed in (False, True):
            f1 = T_set[(gd, fl, 1)] if prefixed else fl
            ret, f2 = T_hook[(gd, f1)]
            want = 0 if gd < 0 else 1 if gd > 0 else (1 if prefixed else 0)
            inst = "globaldefs%s0/%sassignment" % ("<" if gd < 0 else ">" if gd > 0 else "=", "\\global " if prefixed else "")
            n += 1
            if ret != want:
                R.violation("R1.7", inst + "/scope", "with \\globaldefs %s 0 a %s assignment is performed with scope %s; TeX requires %s" % (
                    "<" if gd < 0 else ">" if gd > 0 else "=", "\\global-prefixed" if prefixed else "plain", names[ret], names[want]), loc)
            elif f2 != 0:
                R.violation("R1.7", inst + "/stale-flag", "with \\globaldefs %s 0, after a %s assignment the pending-\\global flag is still %s: it leaks into a later "
                            "assignment once \\globaldefs returns to 0 (\\global must affect exactly the one assignment it prefixes)" % (
                                "<" if gd < 0 else ">" if gd > 0 else "=", "\\global-prefixed" if prefixed else "plain", names[f2]), loc)
            else:
                R.ok("R1.7", inst, "scope %s, flag consumed" % names[ret], loc, how="finite-state")
    R.floor("R1.7", "command shapes", n, 6)
    R.extra["R1.7_transfer"] = {"hook": {"%d,%s" % (k[0], names[k[1]]): [names[v[0]], names[v[1]]] for k, v in T_hook.items()},
                                "set_scope": {"%d,%s,%s" % (k[0], names[k[1]], names[k[2]]): names[v] for k, v in T_set.items()}}


def r1_8(F, R):
    from ..callgraph import CallGraph
    from ..pps_run import callgraph
    R.rule("R1.8", "undoing does not log: from the group-end restore path (SaveStackElement::restore, GroupingContainer::end_group) the call graph does not reach "
                   "the logging assignment path (variable::update_save_stack / TypedVariable::set / the scoped GroupingContainer::insert) — a restore that "
                   "re-enters it records the inner value in the enclosing group's log")
    cg = callgraph(F, {"texlang.lib", "texcraft_stdext.lib"})
    starts = {"texlang::variable::SaveStackElement::restore": ["texlang::variable::update_save_stack", "texlang::variable::TypedVariable::set", "texlang::variable::SaveStackMap::save"],
              GC + "::end_group": [GC + "::insert"]}
    for start, banned in starts.items():
        roots = [f.id for f in F.fns.values() if strip_generics(f.name) == start]
        if not roots:
            raise AnchorError("R1.8: %s not found" % start)
        seen = cg.reachable(roots)
        hit = None
        for fid in seen:
            nm = strip_generics(F.fns[fid].name)
            if nm in banned:
                hit = fid
                break
        loc = "%s:%d" % (F.fns[roots[0]].file, F.fns[roots[0]].line)
        if hit is None:
            R.ok("R1.8", start, "%d functions reachable, none of %s" % (len(seen), [b.split("::")[-1] for b in banned]), loc, how="call-graph")
        else:
            R.violation("R1.8", start, "the restore path %s reaches the logging assignment %s (%s): restoring a value at group end saves the inner value in the "
                        "enclosing group, so it reappears one `}` later" % (start, F.fns[hit].name, " <- ".join(reversed(cg.chain(seen, hit, 6)))), loc)


def c01_is_generated(fn):
    return _is_serde_visitor(fn) or fn.raw.get("mac") in ("Serialize", "Deserialize", "serde::Serialize", "serde::Deserialize")


def _one_fn(F, name):
    c = [f for f in F.fns.values() if strip_generics(f.name) == name]
    if len(c) != 1:
        raise AnchorError("anchor fn %s: %d matches" % (name, len(c)))
    return c[0]


def r1_9(F, R):
    R.rule("R1.9", "the prefix run is complete before it is acted on: in prefix::process_prefixes every read of the accumulated Prefix (its `global`, "
                   "`long`, `outer` fields, or the value as a whole) is dominated by the return of complete_prefix, which scans the remaining "
                   "\\global/\\long/\\outer tokens; a flag sampled earlier misses a `\\global` that is not the first prefix (`\\long\\global\\def`)")
    fn = [f for f in F.fns.values() if strip_generics(f.name) == "texlang_stdlib::prefix::process_prefixes"]
    if len(fn) != 1:
        raise AnchorError("R1.9: process_prefixes: %d matches" % len(fn))
    fn = fn[0]
    cps = [(bi, t) for bi, t in fn.calls() if strip_generics(callee_name(t) or "").endswith("prefix::complete_prefix")]
    if len(cps) != 1:
        raise AnchorError("R1.9: %d complete_prefix calls in process_prefixes" % len(cps))
    cb, ct = cps[0]
    after = ct.get("t")
    dom = dominators(fn)
    PREFIX = 1  # first argument
    n = 0
    bad = []
    for bi, b in enumerate(fn.blocks):
        if b.get("cleanup"):
            continue
        items = [(st, st["rv"]) for st in b["s"] if st["k"] == "="]
        for st, rv in items:
            places = []
            if rv["k"] in ("use", "cast"):
                places.append(op_place(rv["op"]))
            elif rv["k"] in ("ref", "discr", "rawptr"):
                places.append(rv["pl"])
            elif rv["k"] == "agg":
                places += [op_place(o) for o in rv["ops"]]
            for p in places:
                if p is not None and p["l"] == PREFIX:
                    n += 1
                    if bi == cb:
                        continue  # the `&mut prefix` handed to complete_prefix itself
                    if after is None or after not in dom[bi]:
                        bad.append(fn.loc(st))
        t = b["t"]
        if t["k"] == "call" and bi != cb:
            for a in t["args"]:
                p = op_place(a)
                if p is not None and p["l"] == PREFIX:
                    n += 1
                    if after is None or after not in dom[bi]:
                        bad.append(fn.loc(t))
    R.floor("R1.9", "reads of the accumulated prefix", n, 4)
    loc = "%s:%d" % (fn.file, fn.line)
    if bad:
        R.violation("R1.9", "process_prefixes/read-before-complete", "process_prefixes reads the accumulated prefix at %s before complete_prefix has scanned the "
                    "rest of the prefix run: a later `\\global` (as in `\\long\\global\\def`) is not seen and the definition is made locally" % bad[0], bad[0])
    else:
        R.ok("R1.9", "process_prefixes", "%d reads, all after complete_prefix" % n, loc, how="dominator")


def r1_10(F, R):
    R.rule("R1.10", "what a group restores is the value at the moment it opened: the value saved for a target in the current group is recorded once, "
                    "by the first local assignment, and later local assignments in the same group leave the record alone. Structurally: "
                    "(a) SaveStackMap::save writes only through a vacant entry (VacantEntry::insert / or_insert), never through HashMap::insert, which "
                    "would replace the first record by the value before the *last* assignment; (b) in GroupingContainer::insert a Revert(old) record "
                    "reaches the group's log only through a vacant entry; (c) the current font is stored into the top of fonts_save_stack only "
                    "under an is-empty test of that slot")
    VAC = ("VacantEntry::insert", "Entry::or_insert", "Entry::or_insert_with", "VacantEntry::insert_entry", "Entry::or_default")

    def is_vac(cn):
        return any(cn.replace("<K, V>", "").replace("<'a, K, V>", "").endswith(v) or ("::" + v.split("::")[0] + "<") in cn and cn.endswith("::" + v.split("::")[1]) for v in VAC)

    # (a)
    fn = _one_fn(F, "texlang::variable::SaveStackMap::save")
    loc = "%s:%d" % (fn.file, fn.line)
    dom = dominators(fn)
    tests = {bi for bi, t in fn.calls() if strip_generics(callee_name(t) or "").split("::")[-1] in ("contains_key", "get", "get_mut", "is_none", "is_some")}
    bad = vac = 0
    for bi, t in fn.calls():
        cn = strip_generics(callee_name(t) or "")
        if is_vac(cn):
            vac += 1
        elif cn.endswith("HashMap::insert") or cn.endswith("::insert") and "HashMap" in cn or cn.split("::")[-1] in ("extend", "insert_unique_unchecked"):
            if not any(tb in dom[bi] and tb != bi for tb in tests):
                bad += 1
                R.violation("R1.10", "SaveStackMap::save/overwrite", "SaveStackMap::save stores with %s, which replaces an existing record: the second local "
                            "assignment to a variable inside one group overwrites the saved value, and the group then restores the value before the last "
                            "assignment instead of the value at group open" % cn.split("::")[-1], fn.loc(t))
    if not bad:
        if not vac and not tests:
            raise AnchorError("R1.10: SaveStackMap::save: no recognised write into the save map")
        R.ok("R1.10", "SaveStackMap::save", "writes only through a vacant entry (%d) or under a presence test" % vac, loc, how="callee-set")
    # (b)
    fn = _one_fn(F, "texcraft_stdext::collections::groupingmap::GroupingContainer::insert")
    D = Defs(fn)
    loc = "%s:%d" % (fn.file, fn.line)
    dom = dominators(fn)
    nrev = 0
    bad = 0

    def is_revert(o, depth=4):
        p = op_place(o)
        if p is None or p["p"] or depth == 0:
            return False
        for d in D.defs.get(p["l"], []):
            if d[0] == "st" and d[3]["k"] == "=":
                rv = d[3]["rv"]
                if rv["k"] == "agg" and str(rv.get("variant")) == "Revert":
                    return True
                if rv["k"] == "use" and is_revert(rv["op"], depth - 1):
                    return True
        return False
    for bi, t in fn.calls():
        cn = strip_generics(callee_name(t) or "")
        if not any(is_revert(a) for a in t.get("args") or []):
            continue
        nrev += 1
        if is_vac(cn):
            R.ok("R1.10", "GroupingContainer::insert/revert#%d" % nrev, "Revert record written through %s" % cn.split("::")[-1], fn.loc(t), how="callee-set")
        else:
            tests = {tb for tb, tt in fn.calls() if strip_generics(callee_name(tt) or "").split("::")[-1] in ("contains_key",) and tb in dom[bi] and tb != bi}
            if tests:
                R.ok("R1.10", "GroupingContainer::insert/revert#%d" % nrev, "Revert record written under a contains_key test", fn.loc(t), how="dominator")
            else:
                bad += 1
                R.violation("R1.10", "GroupingContainer::insert/revert#%d" % nrev, "GroupingContainer::insert records Revert(old) with %s, which replaces the record "
                            "of an earlier local assignment in the same group: the group then restores an intermediate value" % cn, fn.loc(t))
    if nrev == 0:
        raise AnchorError("R1.10: GroupingContainer::insert: no Revert record is written")
    # (c)
    f2s = [f for f in F.fns.values() if strip_generics(f.name) == "texlang::vm::VM::run_impl"]
    cands = list(f2s) + [g for g in F.fns.values() if f2s and g.file == f2s[0].file and g.id != f2s[0].id and _extracted_from(F, g, {"texlang::vm::VM::run_impl"})]
    nfont = 0
    for g in cands:
        if not any("fonts_save_stack" in [e.get("n") for e in (op_place({"cp": st["rv"]["pl"]}) or {"p": []})["p"] if isinstance(e, dict)]
                   for b in g.blocks for st in b["s"] if st["k"] == "=" and st["rv"]["k"] in ("ref",)):
            continue
        domg = dominators(g)
        tests = {bi for bi, t in g.calls() if strip_generics(callee_name(t) or "").split("::")[-1] in ("is_none", "is_some")}
        for bi, b in enumerate(g.blocks):
            t = b["t"]
            if t["k"] == "switch":
                pp = op_place(t["op"])
                dd = Defs(g).single(pp["l"]) if pp is not None and not pp["p"] else None
                if dd and dd[0] == "st" and dd[3]["k"] == "=" and dd[3]["rv"]["k"] == "discr" and g.local_ty((dd[3]["rv"]["pl"])["l"]).replace("&mut ", "") == "core::option::Option<texlang::types::Font>":
                    tests.add(bi)
        for bi, b in enumerate(g.blocks):
            for st in b["s"]:
                if st["k"] != "=":
                    continue
                lhs = st["lhs"]
                if lhs["p"] != ["*"] or g.local_ty(lhs["l"]) != "&mut core::option::Option<texlang::types::Font>":
                    continue
                rv = st["rv"]
                if rv["k"] == "use":
                    q = op_place(rv["op"])
                    dq = Defs(g).single(q["l"]) if q is not None and not q["p"] else None
                    rv = dq[3]["rv"] if dq and dq[0] == "st" and dq[3]["k"] == "=" else rv
                if rv["k"] == "agg" and str(rv.get("variant")) == "None":
                    continue   # the purge of a global assignment
                nfont += 1
                if any(tb in domg[bi] for tb in tests):
                    R.ok("R1.10", "font/save#%d" % nfont, "the current font is saved under an emptiness test of the slot", g.loc(st), how="dominator")
                else:
                    R.violation("R1.10", "font/save#%d" % nfont, "%s stores the current font into the top of fonts_save_stack without testing that the slot is "
                                "empty: a second local font change in the same group overwrites the font saved at group open" % g.name, g.loc(st))
    if nfont == 0:
        raise AnchorError("R1.10: no store of the current font into fonts_save_stack found")


def r1_11(F, R):
    import json, os
    R.rule("R1.11", "no assignment path ignores its scope: in every function of the command map, the variables API, the scoped containers and the "
                    "standard library that receives a groupingmap::Scope, every normal path to a return hands the scope on (to a callee, into a field) "
                    "or branches on it — a path that ends without looking at the scope does the same thing for a local and a \\global assignment, "
                    "and a global assignment has work to do even when the value does not change (purging the saved values of the open groups). "
                    "Exceptions are audited early-outs, each tied to one arm of one test (tables/scope_bypass_audited.json)")
    tab = json.load(open(os.path.join(os.path.dirname(os.path.dirname(os.path.dirname(os.path.abspath(__file__)))), "tables", "scope_bypass_audited.json")))
    n = 0
    used = set()
    for fn in sorted(F.fns.values(), key=lambda f: f.name):
        sc = [i for i in range(1, fn.argc + 1) if fn.local_ty(i).endswith("groupingmap::Scope")]
        if not sc or "::tests::" in fn.name or fn.crate.endswith(".test") or fn.crate not in ("texlang.lib", "texlang_stdlib.lib", "texcraft_stdext.lib", "texlang_font.lib"):
            continue
        nm = strip_generics(fn.name)
        if "::_::" in nm or fn.raw.get("mac") in ("Clone", "Debug", "PartialEq", "Serialize", "Deserialize") or (fn.impl and (fn.impl.get("trait") or "").split("::")[-1] in ("Clone", "Debug", "PartialEq", "Eq", "Hash")):
            continue
        n += 1
        hold = set(sc)
        ch = True
        while ch:
            ch = False
            for b in fn.blocks:
                for st in b["s"]:
                    if st["k"] == "=" and st["rv"]["k"] == "use" and not st["lhs"]["p"]:
                        q = op_place(st["rv"]["op"])
                        if q is not None and not q["p"] and q["l"] in hold and st["lhs"]["l"] not in hold:
                            hold.add(st["lhs"]["l"])
                            ch = True
        use = set()
        for bi, b in enumerate(fn.blocks):
            for st in b["s"]:
                if st["k"] != "=":
                    continue
                if st["rv"]["k"] == "discr" and st["rv"]["pl"]["l"] in hold:
                    use.add(bi)
                if st["lhs"]["p"] and any((op_place(o) or {"l": -1})["l"] in hold for o in rv_operands(st["rv"])):
                    use.add(bi)      # stored into a field / through a reference
                if st["rv"]["k"] == "agg" and any((op_place(o) or {"l": -1})["l"] in hold for o in st["rv"]["ops"]):
                    use.add(bi)      # wrapped into a value that travels on
            t = b["t"]
            if t["k"] == "call" and any((op_place(a) or {"l": -1})["l"] in hold for a in t["args"]):
                use.add(bi)
        loc = "%s:%d" % (fn.file, fn.line)
        exc_blocks = set()
        whole = False
        key = nm if nm in tab else None
        for spec in tab.get(key, []) if key else []:
            used.add(key)
            if spec.get("whole"):
                whole = True
                continue
            D = Defs(fn)
            for bi, t in fn.calls():
                if not strip_generics(callee_name(t) or "").endswith(spec["call"]):
                    continue
                r = t["dest"]["l"]
                # the same Option/Result handed through presence-preserving adaptors (`get_command(..).cloned()`)
                for _ in range(3):
                    nxt_calls = [tt for _, tt in fn.calls() if strip_generics(callee_name(tt) or "").split("::")[-1] in ("cloned", "copied", "as_ref", "as_deref", "as_mut")
                                 and tt.get("args") and (D.resolve_place(tt["args"][0]) or {}).get("l") == r]
                    if len(nxt_calls) != 1:
                        break
                    r = nxt_calls[0]["dest"]["l"]
                nxt = t.get("t")
                if spec["arm"] in ("true", "false"):
                    # the bool result is switched on (possibly after a copy)
                    for b2, blk in enumerate(fn.blocks):
                        tt = blk["t"]
                        if tt["k"] == "switch":
                            p = op_place(tt["op"])
                            src = D.resolve_place(tt["op"]) if p is not None else None
                            if p is not None and (p["l"] == r or (src is not None and src["l"] == r)):
                                m = dict((v, bb) for v, bb in tt["ts"])
                                exc_blocks.add(m.get(0, tt["else"]) if spec["arm"] == "false" else (tt["else"] if 0 in m else m.get(1)))
                else:
                    for b2, blk in enumerate(fn.blocks):
                        tt = blk["t"]
                        if tt["k"] != "switch":
                            continue
                        p = op_place(tt["op"])
                        for st in blk["s"]:
                            if p is not None and st["k"] == "=" and st["lhs"]["l"] == p["l"] and st["rv"]["k"] == "discr" and st["rv"]["pl"]["l"] == r and not st["rv"]["pl"]["p"]:
                                vs = F.enum_variants(st["rv"]["ty"]) or []
                                m = dict((v, bb) for v, bb in tt["ts"])
                                for name, d, vi in vs:
                                    if name == spec["arm"]:
                                        exc_blocks.add(m.get(d, tt["else"]))
        if whole:
            R.ok("R1.11", nm, "audited: " + tab[key][0]["why"], loc, how="audited")
            continue
        path = normal_exit_avoiding(fn, use | exc_blocks)
        if path is None:
            R.ok("R1.11", nm, "every normal path uses the scope (%d use blocks%s)" % (len(use), ", %d audited early-out arms" % len(exc_blocks) if exc_blocks else ""), loc, how="path")
        else:
            R.violation("R1.11", nm, "%s can return normally without ever looking at its scope argument (%s): on that path a \\global assignment behaves like a "
                        "local one — in particular it does not purge what the open groups saved, so the old value comes back when they close" % (
                            fn.name, fmt_path(fn, path)), loc)
    # the default body of SupportedType::update_save_stack is exempt because nobody relies on it
    impls_a = {(f.impl or {}).get("self_ty") or f.name.split(" as ")[0] for f in F.fns.values() if f.impl and (f.impl.get("trait") or "").endswith("variable::SupportedType") and f.name.endswith("::new_command")}
    impls_b = {(f.impl or {}).get("self_ty") or f.name.split(" as ")[0] for f in F.fns.values() if f.impl and (f.impl.get("trait") or "").endswith("variable::SupportedType") and f.name.endswith("::update_save_stack")}
    if impls_a - impls_b:
        R.violation("R1.11", "SupportedType/default-update_save_stack", "%s implement SupportedType without overriding update_save_stack: their variables are "
                    "never saved when assigned inside a group" % sorted(impls_a - impls_b), "crates/texlang/src/variable.rs:1")
    elif not impls_a:
        raise AnchorError("R1.11: no SupportedType impls found")
    else:
        R.ok("R1.11", "SupportedType/default-update_save_stack", "all %d implementors override it" % len(impls_a), "crates/texlang/src/variable.rs:1", how="sibling")
    R.floor("R1.11", "functions that receive a Scope", n, 15)


def run(F, R, tier):
    r1_11(F, R)
    r1_10(F, R)
    r1_1(F, R)
    r1_9(F, R)
    r1_2(F, R)
    r1_345(F, R)
    r1_6(F, R)
    r1_7(F, R)
    r1_8(F, R)
    if tier == "thorough":
        from .. import witness
        witness.run(R, ["C01"])
    return ("Static analysis over MIR facts of the whole workspace. Decides structural necessary conditions of group scoping: "
            "(R1.1) every grouped container is opened/closed with the VM group on every normal path; (R1.2) the three global-purge "
            "implementations loop over every open level with a loop-variant element; (R1.3) every \\global-prefixable primitive and the "
            "Variable/Font arms consume the global bit on every non-fatal path; (R1.4) the stored scope derives from the hook; (R1.5) consumers "
            "= accepted set; (R1.6) no mutable bypass of the scoped containers. It does not decide that restored values are right.")
