"""C09 — interpreter totality: shutdown protocol (R9.1-R9.3), unsafe inventory
(R9.5) and potential-panic sites reachable from VM::run (R9.4, pps.py)."""
from ..cfg import (Defs, blocks_calling, call_matches, dominators, find_path, is_return, field_path, reachable)
from ..facts import callee_name, strip_generics, AnchorError
from ..linear import Linear, never_err_summary
from .common import fmt_path, callee_generic

TOK = "texlang::vm::ShutdownSignal"
INTERP_CRATES = ("texlang.lib", "texlang_stdlib.lib", "texlang_font.lib", "texlang_common.lib",
                 "boxworks_texlang.lib", "texlang_texttransform.lib", "texcraft.bin", "texcraft_playground.lib")

SINKS = {
    # function (generic-stripped) whose body may legitimately let a signal die
    "texlang::vm::VM::run": "reads shutdown_status right after run_impl returns the signal",
}


def r9_1(F, R):
    R.rule("R9.1", "linear-resource analysis: a value that may hold a ShutdownSignal (Result/ControlFlow/Option carriers) is "
                   "never dropped, overwritten or passed to a non-propagating call in any body of the interpreter crates; "
                   "carriers from never-Err callees (interprocedural summary) are dead at birth")
    fns = [f for f in F.fns.values() if f.crate in INTERP_CRATES]
    ne = never_err_summary(F, TOK, fns)
    # an unresolved trait-method call may dispatch to an overriding impl: only
    # resolved ids count
    trait_items = set()
    for tr in F.traits.values():
        for it in tr["items"]:
            trait_items.add(it["id"])
    ne_resolved = {x for x in ne if x not in trait_items}
    lin = Linear(F, TOK, never_err=ne_resolved, sinks={"core::option::Option::unwrap", "core::result::Result::unwrap", "core::result::Result::expect"})
    n = 0
    for f in sorted(fns, key=lambda f: f.id):
        leaks = lin.analyse(f)
        if leaks is None:
            continue
        n += 1
        nm = strip_generics(f.name)
        if not leaks:
            R.ok("R9.1", f.name, None, "%s:%d" % (f.file, f.line), how="linear")
            continue
        if nm in SINKS:
            R.ok("R9.1", f.name, "audited sink: " + SINKS[nm], "%s:%d" % (f.file, f.line), how="audited-sink")
            continue
        for lk in leaks:
            R.violation("R9.1", "%s/%s" % (nm, lk["kind"]),
                        "%s: a value that may hold a ShutdownSignal (local _%d, born at %s) is %s%s: the VM keeps running with "
                        "shutdown_status set, and the next error panics with 'shutdown signal ignored'" % (
                            f.name, lk["local"], lk.get("born"), lk["kind"], " (callee %s)" % lk["callee"] if lk.get("callee") else ""),
                        lk["loc"])
    R.floor("R9.1", "bodies with a signal carrier", n, 150)
    R.extra["never_err_functions"] = len(ne_resolved)


def r9_2(F, R):
    R.rule("R9.2", "ShutdownSignal{} is constructed only in VM::{shutdown,fatal_error,error}, each construction dominated by a "
                   "ShutdownStatus::transition_to_* call (otherwise VM::run reaches `ShutdownStatus::None => unreachable!()`)")
    allowed = {"texlang::vm::VM::shutdown", "texlang::vm::VM::fatal_error", "texlang::vm::VM::error"}
    n = 0
    for f in F.fns.values():
        for bi, b in enumerate(f.blocks):
            for st in b["s"]:
                if st["k"] == "=" and st["rv"]["k"] == "agg" and st["rv"].get("adt") == TOK:
                    n += 1
                    nm = strip_generics(f.name)
                    if f.crate.startswith("texlang_testing"):
                        continue
                    if nm not in allowed:
                        R.violation("R9.2", nm, "%s constructs a ShutdownSignal without going through VM::shutdown/fatal_error/error: "
                                    "VM::run then finds ShutdownStatus::None and hits unreachable!()" % f.name, f.loc(st))
                        continue
                    dom = dominators(f)
                    tr = [i for i, t in f.calls() if (callee_generic(t) or "").startswith("texlang::vm::ShutdownStatus::transition_to_")]
                    if any(i in dom.get(bi, ()) and i != bi for i in tr):
                        R.ok("R9.2", "%s@bb%d" % (nm, bi), "dominated by transition_to_*", f.loc(st), how="dominator")
                    else:
                        R.violation("R9.2", nm + "/undominated", "%s builds a ShutdownSignal on a path that has not recorded a shutdown status" % f.name, f.loc(st))
    R.floor("R9.2", "ShutdownSignal constructions", n, 3)
    # consts of the ZST type appearing as operands (e.g. `Err(ShutdownSignal {})` folded to a constant)
    for f in F.fns.values():
        if f.crate.startswith("texlang_testing"):
            continue
        nm = strip_generics(f.name)
        for bi, b in enumerate(f.blocks):
            for st in b["s"]:
                if st["k"] != "=":
                    continue
                from ..dataflow import rv_operands
                for o in rv_operands(st["rv"]):
                    c = o.get("c")
                    if c and c.get("ty") == TOK and nm not in allowed:
                        R.violation("R9.2", nm, "%s materialises a constant ShutdownSignal" % f.name, f.loc(st))


def r9_3(F, R):
    R.rule("R9.3", "every VM::stack_push is followed on every path to any exit (including `?` exits) by VM::stack_pop, and every VM::stack_pop is "
                   "preceded on every path from the function's entry by a VM::stack_push")
    n = 0
    for f in F.fns.values():
        pushes = [i for i, t in f.calls() if (callee_generic(t) or "") == "texlang::vm::VM::stack_push"]
        if not pushes:
            continue
        pops = [i for i, t in f.calls() if (callee_generic(t) or "") == "texlang::vm::VM::stack_pop"]
        for p in pushes:
            n += 1
            nxt = f.blocks[p]["t"]["t"]
            path = find_path(f, [nxt], lambda b: is_return(f, b), blocked=pops)
            inst = "%s@push#%d" % (strip_generics(f.name), pushes.index(p))
            if path is None:
                R.ok("R9.3", inst, None, f.loc(f.blocks[p]["t"]), how="must-pass")
            else:
                R.violation("R9.3", inst, "%s: execution-stack push without a pop on the path %s: error context (stack traces) is corrupted from then on" % (f.name, fmt_path(f, path)), f.loc(f.blocks[p]["t"]))
    R.floor("R9.3", "stack_push sites", n, 3)
    # and the converse: a pop only ever undoes a push of the same function — every path from the entry to a stack_pop passes a stack_push
    m = 0
    for f in F.fns.values():
        pops = [i for i, t in f.calls() if (callee_generic(t) or "") == "texlang::vm::VM::stack_pop"]
        if not pops or strip_generics(f.name) == "texlang::vm::VM::stack_pop":
            continue
        pushes = [i for i, t in f.calls() if (callee_generic(t) or "") == "texlang::vm::VM::stack_push"]
        for p in pops:
            m += 1
            inst = "%s@pop#%d" % (strip_generics(f.name), pops.index(p))
            path = find_path(f, [0], lambda b: b == p, blocked=pushes)
            if path is None:
                R.ok("R9.3", inst, "every path to the pop passes a push", f.loc(f.blocks[p]["t"]), how="must-pass")
            else:
                R.violation("R9.3", inst, "%s: execution-stack pop reachable without a preceding push (%s): it removes the frame of the enclosing primitive, so a "
                            "later error is reported with an empty stack (and rendering it unwraps `stack.last()`)" % (f.name, fmt_path(f, path)), f.loc(f.blocks[p]["t"]))
    R.floor("R9.3", "stack_pop sites", m, 3)


def r9_5(F, R):
    R.rule("R9.5", "unsafe inventory: exactly the three audited unsafe blocks; the two &mut VM -> &mut {Expansion,Execution}Input casts "
                   "require every wrapper on the chain to be #[repr(transparent)] with exactly one field")
    audited = {
        "texlang::token::lexer::RawLexer::maybe_apply_caret_notation": "in-place ASCII byte write (guard checked by C03 R3.5)",
        "texlang::vm::streams::ExpansionInput::new": "reference cast through repr(transparent) wrappers",
        "texlang::vm::streams::ExecutionInput::new": "reference cast through repr(transparent) wrappers",
    }
    ub = [u for u in F.unsafe_blocks if u["crate"] in INTERP_CRATES or u["crate"] in ("texcraft_stdext.lib", "common.lib")]
    seen = 0
    for u in ub:
        nm = strip_generics(u["name"])
        if u.get("mac") == "wasm_bindgen":
            R.ok("R9.5", "unsafe@" + nm, "FFI glue generated by the #[wasm_bindgen] attribute (not hand-written)", "%s:%d" % (u["file"], u["line"]), how="generated")
            continue
        if nm in audited:
            seen += 1
            R.ok("R9.5", "unsafe@" + nm, audited[nm], "%s:%d" % (u["file"], u["line"]), how="audited")
        else:
            R.violation("R9.5", "unsafe@" + nm, "unaudited unsafe block in %s: `%s`" % (u["name"], u["snip"][:80]), "%s:%d" % (u["file"], u["line"]))
    R.floor("R9.5", "audited unsafe blocks", seen, 3)
    chain = {
        "texlang::vm::streams::ExecutionInput": "texlang::vm::streams::ExpandedStream",
        "texlang::vm::streams::ExpansionInput": "texlang::vm::streams::ExpandedStream",
        "texlang::vm::streams::ExpandedStream": "texlang::vm::streams::UnexpandedStream",
        "texlang::vm::streams::UnexpandedStream": "texlang::vm::VM",
    }
    for w, inner in chain.items():
        a = F.adt(w)
        fields = a["variants"][0]["fields"]
        ok = a["transparent"] and len(fields) == 1 and fields[0]["ty"].startswith(inner + "<")
        if ok:
            R.ok("R9.5", "repr:" + w, "repr(transparent) over %s" % fields[0]["ty"], "%s:%d" % (a["file"], a["line"]), how="adt-layout")
        else:
            R.violation("R9.5", "repr:" + w, "%s must be #[repr(transparent)] with the single field %s<S> for the reference cast in "
                        "ExpansionInput::new/ExecutionInput::new to be defined behaviour (transparent=%s, fields=%s)" % (
                            w, inner, a["transparent"], [f["ty"] for f in fields]), "%s:%d" % (a["file"], a["line"]))


def r9_6(F, R):
    import json, os
    from .common import narrowing_rule
    aud = json.load(open(os.path.join(os.path.dirname(os.path.dirname(os.path.dirname(os.path.abspath(__file__)))), "tables", "narrowing_audited.json")))
    narrowing_rule(F, R, "R9.6", "the interpreter (texlang, texlang-stdlib)",
                   lambda fn: fn.crate in ("texlang.lib", "texlang_stdlib.lib") and "serde" not in fn.name and "::_::" not in fn.name and "::_#" not in fn.name, 10, aud)


def r9_8(F, R):
    from ..cfg import Defs
    from .common import producers
    R.rule("R9.8", "recovery never replaces the error: every error a recoverable_error_hook implementation returns is the one it was given (or what a "
                   "hook it delegates to returned). An error created inside the hook is raised outside every primitive and without a token: it has no "
                   "source location, and the renderer of the location-less kinds (`stack.last().unwrap()` in error/display.rs, argued for errors raised "
                   "while a primitive runs) panics on it")
    n = 0
    for fn in sorted(F.fns.values(), key=lambda f: f.name):
        nm = strip_generics(fn.name)
        if fn.crate not in ("texlang.lib", "texlang_stdlib.lib", "texcraft.bin", "texlang_testing.lib") or "::tests::" in nm:
            continue
        if nm.split("::")[-1] != "recoverable_error_hook":
            continue
        D = Defs(fn)
        err_params = [i for i in range(1, fn.argc + 1) if "TracedTexError" in fn.local_ty(i) or "TexError" in fn.local_ty(i)]
        if not err_params:
            continue
        n += 1
        bad = []
        for bi, b in enumerate(fn.blocks):
            for st in b["s"]:
                if st["k"] == "=" and not st["lhs"]["p"] and st["lhs"]["l"] == 0 and st["rv"]["k"] == "agg" and str(st["rv"].get("variant")) == "Err":
                    pr = set()
                    for o in st["rv"]["ops"]:
                        pr |= producers(fn, D, o)
                    from_arg = any(tag == "arg" for tag, name, ty in pr)
                    fresh = [name for tag, name, ty in pr if tag == "call" and not name.split("::")[-1] == "recoverable_error_hook"]
                    if fresh or not from_arg:
                        bad.append((fn.loc(st), sorted(set(fresh))[:3]))
        loc = "%s:%d" % (fn.file, fn.line)
        if bad:
            for l, fresh in bad:
                R.violation("R9.8", nm + "/fresh-error", "%s returns an error it built itself (%s) instead of the recoverable error it was given: that error "
                            "has no token and is raised outside every primitive, so it carries no source location and cannot be rendered" % (fn.name, ", ".join(x.split("::")[-1] for x in fresh) or "no part of its argument"), l)
        else:
            R.ok("R9.8", nm, "every returned error derives from the hook's argument", loc, how="provenance")
    R.floor("R9.8", "recoverable_error_hook implementations", n, 2)


def run(F, R, tier):
    r9_8(F, R)
    r9_1(F, R)
    r9_2(F, R)
    r9_3(F, R)
    r9_5(F, R)
    r9_6(F, R)
    if tier == "thorough":
        from .. import witness
        witness.run(R, ["C09"])
    try:
        from . import pps_c09
        pps_c09.run(F, R, tier)
    except ImportError:
        R.note("R9.4 (potential-panic sites) not built yet")
    return ("Static analysis over MIR facts. Decides the shutdown protocol completely for the interpreter crates (R9.1 linear analysis of "
            "ShutdownSignal carriers in every body; R9.2 provenance of the signal; R9.3 execution-stack pairing), the unsafe inventory and "
            "layout preconditions (R9.5), and enumerates-and-discharges potential-panic sites reachable from VM::run (R9.4). "
            "It does not decide termination, nor panics inside std outside the listed kinds.")
