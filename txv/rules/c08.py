"""C08 — checkpointing: every state-carrying field is written by Serialize and
restored by Deserialize, or is in the audited reconstructible table."""
import json
import os

from ..cfg import Defs, find_path, is_return, diverging_blocks, err_blocks
from ..dataflow import Flow, op_place, rv_operands
from ..facts import callee_name, strip_generics, AnchorError
from ..linear import split_generics
from .common import callee_ids, ty_is

VERIF = os.path.dirname(os.path.dirname(os.path.dirname(os.path.abspath(__file__))))
SER = "serde::ser::Serialize"
DE = "serde::de::Deserialize"
ROOTS = ["texlang::vm::VM", "texlang_stdlib::StdLibState"]
THOROUGH_ROOTS = ["texcraft::State", "texcraft_playground::PlaygroundState"]


def adt_of_ty(ty):
    """base ADT path of a type string, through references / Box / Rc"""
    t = ty.strip()
    while True:
        if t.startswith("&"):
            t = t[1:].lstrip()
            if t.startswith("'"):
                t = t.split(" ", 1)[1] if " " in t else t
            if t.startswith("mut "):
                t = t[4:]
            continue
        break
    base, args = split_generics(t)
    if base in ("alloc::boxed::Box", "alloc::rc::Rc", "alloc::sync::Arc", "alloc::borrow::Cow") and args:
        return adt_of_ty(args[-1] if base == "alloc::borrow::Cow" else args[0])
    return base


def projections(fn):
    """yield (owner_adt, variant_or_None, field_name, place, node, is_store) for every field projection in the body"""
    def walk(place, node, is_store):
        ty = fn.local_ty(place["l"])
        variant = None
        for e in place["p"]:
            if e == "*":
                continue
            if isinstance(e, dict) and "dc" in e:
                variant = e["n"]
                continue
            if isinstance(e, dict) and "f" in e:
                owner = adt_of_ty(ty)
                yield (owner, variant, e["n"] or str(e["f"]), place, node, is_store)
                ty = e["t"]
                variant = None
            else:
                # index etc: element type unknown to us; stop
                return
    for b in fn.blocks:
        for st in b["s"]:
            if st["k"] != "=":
                continue
            if st["lhs"]["p"]:
                # only the last projection is stored to; earlier ones are reads
                yield from walk(st["lhs"], st, True)
            rv = st["rv"]
            for o in rv_operands(rv):
                p = op_place(o)
                if p is not None:
                    yield from walk(p, st, False)
        t = b["t"]
        if t["k"] == "call":
            for a in t["args"]:
                p = op_place(a)
                if p is not None:
                    yield from walk(p, t, False)
        elif t["k"] == "switch":
            p = op_place(t["op"])
            if p is not None:
                yield from walk(p, t, False)


def closure_of(F, roots, depth, stop_pred):
    """functions reachable from roots through workspace calls (and their closures)"""
    seen = {}
    work = [(r, 0) for r in roots]
    while work:
        fn, d = work.pop()
        if fn.id in seen:
            continue
        seen[fn.id] = fn
        for cid in F.closures_of(fn.id):
            c = F.fns.get(cid)
            if c is not None and c.id not in seen:
                work.append((c, d))
        if d >= depth:
            continue
        for bi, t in fn.calls():
            gid, rid = callee_ids(t)
            g = F.fns.get(rid) or F.fns.get(gid)
            if g is None or g.id in seen:
                continue
            if stop_pred(g):
                continue
            work.append((g, d + 1))
    return seen


def impl_fns(F, trait, adt):
    out = []
    for f in F.fns.values():
        if f.impl and f.impl.get("trait") == trait and f.impl.get("self_adt") == adt:
            out.append(f)
    return out


def load_table(name):
    p = os.path.join(VERIF, "tables", name)
    return json.load(open(p))


def r8_1(F, R, tier):
    R.rule("R8.1", "every field of every type on the serialised state graph (from VM<StdLibState>) is projected by the Serialize "
                   "closure and input-derived in every aggregate/field store of the Deserialize closure, or is listed in "
                   "tables/reconstructible.json with its reason")
    table = load_table("reconstructible.json")
    roots = list(ROOTS) + (THOROUGH_ROOTS if tier == "thorough" else [])
    roots = [r for r in roots if r in F.adts]
    ser_types = {im["self_adt"] for im in F.impls if im.get("trait") == SER and im.get("self_adt")}
    de_types = {im["self_adt"] for im in F.impls if im.get("trait") == DE and im.get("self_adt")}

    # --- serialisation closure: all Serialize::serialize impls of workspace types plus helpers
    ser_roots = [f for f in F.fns.values() if f.impl and f.impl.get("trait") == SER and not f.crate.startswith(("texlang_testing", "boxworks", "tfm", "dvi"))]
    is_ser_impl = lambda g: bool(g.impl and g.impl.get("trait") in (SER, DE))
    ser_cl = closure_of(F, ser_roots, 3, is_ser_impl)
    written = {}
    for f in ser_cl.values():
        for owner, variant, field, place, node, is_store in projections(f):
            written.setdefault((owner, field), f.loc(node))

    # --- deserialisation closure
    de_roots = [f for f in F.fns.values() if (f.impl and f.impl.get("trait") == DE) or "finish_deserialization" in f.name
                or strip_generics(f.name) in ("texlang::vm::serde::deserialize", "texlang::variable::SaveStackMap::from_deserialized")
                or "__Visitor" in f.name]
    de_roots = [f for f in de_roots if not f.crate.startswith(("texlang_testing", "boxworks", "tfm", "dvi"))]
    de_cl = closure_of(F, de_roots, 2, lambda g: bool(g.impl and g.impl.get("trait") in (SER, "core::default::Default")))
    restored = {}   # (adt, field) -> True/False (all aggregates derived) ; stores
    defaulted_at = {}
    for f in de_cl.values():
        flow = None
        for b in f.blocks:
            for st in b["s"]:
                if st["k"] != "=":
                    continue
                rv = st["rv"]
                if rv["k"] == "agg" and rv.get("ak") == "adt" and rv["adt"] in F.adts and F.adts[rv["adt"]]["kind"] == "struct":
                    flow = flow or Flow(f)
                    for name, op in zip(rv["fields"], rv["ops"]):
                        key = (rv["adt"], name)
                        d = _input_derived(f, flow, op)
                        if d:
                            restored.setdefault(key, True)
                        else:
                            restored[key] = False
                            defaulted_at[key] = f.loc(st)
                # field stores `x.f = v`
                if st["lhs"]["p"]:
                    projs = list(_last_field(f, st["lhs"]))
                    if projs:
                        owner, field = projs[0]
                        flow = flow or Flow(f)
                        ops = rv_operands(rv)
                        if any(_input_derived(f, flow, o) for o in ops):
                            restored[(owner, field)] = "store"

    # --- walk the serialised graph
    seen = []
    stack = list(roots)
    n_fields = 0
    n_types = 0
    while stack:
        T = stack.pop()
        if T in seen or T not in F.adts:
            continue
        seen.append(T)
        adt = F.adts[T]
        if adt["kind"] != "struct":
            # enums: descend into payload types
            for v in adt["variants"]:
                for fld in v["fields"]:
                    for a in fld["adts"]:
                        stack.append(a)
            continue
        if T not in ser_types:
            continue
        n_types += 1
        for fld in adt["variants"][0]["fields"]:
            key = "%s.%s" % (T, fld["name"])
            if fld["ty"].startswith("core::marker::PhantomData"):
                continue
            n_fields += 1
            w = (T, fld["name"]) in written
            r = restored.get((T, fld["name"]))
            r_ok = r is True or r == "store"
            loc = "%s:%d" % (adt["file"], adt["line"])
            if w and r_ok:
                R.ok("R8.1", key, "written at %s; restored from input" % written[(T, fld["name"])], loc, how="field-coverage")
                for a in fld["adts"]:
                    stack.append(a)
            elif key in table:
                ent = table[key]
                ok, why = _recheck(F, ent)
                if ok:
                    R.ok("R8.1", key, "audited reconstructible: %s%s" % (ent["reason"], " [re-checked: %s]" % why if why else ""), loc, how="audited")
                else:
                    R.violation("R8.1", key + "/requires", "table entry for %s no longer holds: %s" % (key, why), loc)
                if w:
                    for a in fld["adts"]:
                        stack.append(a)
            else:
                what = []
                if not w:
                    what.append("never read by the Serialize closure")
                if not r_ok:
                    what.append("not restored from the input by the Deserialize closure (%s)" % (
                        "defaulted at %s" % defaulted_at.get((T, fld["name"])) if r is False else "no construction found"))
                R.violation("R8.1", key, "state field %s is %s: a checkpointed VM loses it" % (key, " and ".join(what)), loc)
    R.floor("R8.1", "serialised struct types on the state graph", n_types, 30)
    R.floor("R8.1", "state fields examined", n_fields, 90)
    R.extra["serialise_closure_fns"] = len(ser_cl)
    R.extra["deserialise_closure_fns"] = len(de_cl)


def _last_field(fn, place):
    ty = fn.local_ty(place["l"])
    last = None
    for e in place["p"]:
        if isinstance(e, dict) and "f" in e:
            last = (adt_of_ty(ty), e["n"] or str(e["f"]))
            ty = e["t"]
        elif isinstance(e, dict) and "dc" in e:
            continue
        elif e == "*":
            continue
        else:
            last = None
    if last:
        yield last


def _input_derived(fn, flow, op):
    o = flow.operand_origins(op)
    for k, v in o:
        if k == "arg":
            return True
        if k == "call" and v:
            n = strip_generics(v).split("::")[-1]
            if n in ("next_element", "next_element_seed", "next_value", "next_value_seed", "deserialize", "next_key", "next_entry", "newtype_variant", "struct_variant", "tuple_variant"):
                return True
    return False


def _recheck(F, ent):
    """re-checkable `requires` clauses of table entries"""
    req = ent.get("requires")
    if not req:
        return True, None
    kind = req["kind"]
    if kind == "fn_calls":
        # function `fn` must call `callee`
        fns = [f for f in F.fns.values() if strip_generics(f.name) == req["fn"]]
        if not fns:
            return False, "function %s not found" % req["fn"]
        for f in fns:
            for bi, t in f.calls():
                if strip_generics(callee_name(t) or "").endswith(req["callee"]):
                    return True, "%s calls %s" % (req["fn"], req["callee"])
            for cid in F.closures_of(f.id):
                for bi, t in F.fns[cid].calls():
                    if strip_generics(callee_name(t) or "").endswith(req["callee"]):
                        return True, "%s calls %s" % (req["fn"], req["callee"])
        return False, "%s no longer calls %s" % (req["fn"], req["callee"])
    if kind == "fn_calls_every_iteration":
        # `fn` calls `callee` inside a loop, and no iteration can go round (or leave normally through the loop) without the call
        from ..cfg import natural_loops, find_path, err_blocks
        fns = [f for f in F.fns.values() if strip_generics(f.name) == req["fn"]]
        if len(fns) != 1:
            return False, "function %s: %d matches" % (req["fn"], len(fns))
        f = fns[0]
        calls = [bi for bi, t in f.calls() if strip_generics(callee_name(t) or "").endswith(req["callee"])]
        if not calls:
            return False, "%s no longer calls %s" % (req["fn"], req["callee"])
        loops = natural_loops(f)
        for header, body in loops.items() if isinstance(loops, dict) else loops:
            if not any(c in body for c in calls):
                continue
            # per-element entry: the Some arm of the iterator `next` in the header region
            starts = []
            for b in body:
                tt = f.blocks[b]["t"]
                if tt["k"] == "switch":
                    m = dict(tt["ts"])
                    if 1 in m and m[1] in body and (0 in m and m[0] not in body or tt["else"] not in body):
                        starts.append(m[1])
            if not starts:
                continue
            path = find_path(f, starts, lambda x: x == header, blocked=set(calls) | err_blocks(f) | {b for b in range(len(f.blocks)) if b not in body})
            if path:
                return False, "an iteration of the rebuild loop in %s can skip %s (%s)" % (req["fn"], req["callee"], " -> ".join("bb%d" % b for b in path[:6]))
            return True, "%s calls %s on every iteration of its rebuild loop" % (req["fn"], req["callee"])
        return False, "%s does not call %s inside a loop" % (req["fn"], req["callee"])
    if kind == "variant_arm_total":
        # in `fn` (or a closure nested in it) a match on `enum` has an arm for `variant` from which no `None` answer can be reached:
        # the rebuilt table has an entry for *every* value of that variant (a nested filter loses some of them)
        from ..cfg import reachable
        fns = [f for f in F.fns.values() if strip_generics(f.name) == req["fn"]]
        if len(fns) != 1:
            return False, "function %s: %d matches" % (req["fn"], len(fns))
        cands = [fns[0]] + [F.fns[c] for c in F.closures_of(fns[0].id)]
        found = 0
        for f in cands:
            for bi, b in enumerate(f.blocks):
                tt = b["t"]
                if tt["k"] != "switch":
                    continue
                for st in b["s"]:
                    if st["k"] == "=" and st["rv"]["k"] == "discr" and str(st["rv"].get("ty", "")).split("<")[0].endswith(req["enum"]):
                        vs = F.enum_variants(st["rv"]["ty"]) or []
                        m = dict((v, bb) for v, bb in tt["ts"])
                        for name, d, vi in vs:
                            if name != req["variant"]:
                                continue
                            tgt = m.get(d)
                            if tgt is None:
                                return False, "%s has no arm of its own for %s::%s" % (f.name, req["enum"], req["variant"])
                            found += 1
                            for rb in reachable(f, tgt):
                                for s2 in f.blocks[rb]["s"]:
                                    if s2["k"] == "=" and not s2["lhs"]["p"] and s2["lhs"]["l"] == 0 and s2["rv"]["k"] == "agg" and str(s2["rv"].get("variant")) == "None":
                                        return False, "in %s the %s::%s arm can answer None (%s): some %s values get no entry in the rebuilt table" % (
                                            f.name, req["enum"].split("::")[-1], req["variant"], f.loc(s2), req["variant"])
        if not found:
            return False, "no match on %s with a %s arm found in %s" % (req["enum"], req["variant"], req["fn"])
        return True, "every %s::%s gets an entry (%d arm%s)" % (req["enum"].split("::")[-1], req["variant"], found, "" if found == 1 else "s")
    if kind == "only_written_in":
        # field (adt, name) is stored / aggregated only in the listed functions
        adt, name = req["adt"], req["field"]
        bad = []
        for f in F.fns.values():
            if f.crate.startswith("texlang_testing"):
                continue
            nm = strip_generics(f.name)
            hit = False
            for owner, variant, field, place, node, is_store in projections(f):
                if owner == adt and field == name and node.get("k") == "=" and node["lhs"] is place:
                    # store through the projection: is this the last field of the lhs?
                    lf = list(_last_field(f, place))
                    if lf and lf[0] == (adt, name):
                        hit = True
                # mutable borrow of the field
                if owner == adt and field == name and node.get("k") == "=" and node["rv"]["k"] in ("ref", "rawptr") and node["rv"].get("mut") and node["rv"]["pl"] is place:
                    lf = list(_last_field(f, place))
                    if lf and lf[0] == (adt, name):
                        hit = True
            if hit and not any(nm == a or nm.startswith(a) for a in req["allowed"]):
                bad.append(nm)
        if bad:
            return False, "%s.%s is also written in %s" % (adt, name, sorted(set(bad))[:3])
        return True, "%s.%s written only in %s" % (adt, name, req["allowed"])
    return True, None


# ------------------------------------------------------------------ R8.2

def variant_arms(F, fn, enum_name):
    """For switches on discriminant of an `enum_name`-typed place: variant -> target block"""
    out = []
    variants = F.enum_variants(enum_name) or []
    for bi, b in enumerate(fn.blocks):
        t = b["t"]
        if t["k"] != "switch":
            continue
        p = op_place(t["op"])
        if p is None:
            continue
        for st in b["s"]:
            if st["k"] == "=" and st["lhs"]["l"] == p["l"] and st["rv"]["k"] == "discr" and adt_of_ty(st["rv"]["ty"]) == enum_name:
                m = dict((v, bb) for v, bb in t["ts"])
                arms = {}
                for name, d, vi in variants:
                    arms[name] = m.get(d, t["else"])
                out.append((bi, arms))
    return out


def r8_2(F, R):
    R.rule("R8.2", "every Command variant has a serialisation arm in SerializableMap::new and every SerializableCommand variant a "
                   "deserialisation arm in finish_deserialization that can reach a normal exit (an arm that always panics loses that command kind)")
    insts = [
        ("texlang::command::map::SerializableMap::new", "texlang::command::Command"),
        ("texlang::command::map::SerializableMap::finish_deserialization", "texlang::command::map::SerializableCommand"),
    ]
    n = 0
    for fname, enum in insts:
        fns = [f for f in F.fns.values() if strip_generics(f.name) == fname]
        if len(fns) != 1:
            raise AnchorError("R8.2: %s: %d matches" % (fname, len(fns)))
        cands = [fns[0]] + [F.fns[c] for c in F.closures_of(fns[0].id)]
        found = False
        for f in cands:
            for bi, arms in variant_arms(F, f, enum):
                found = True
                div = diverging_blocks(f)
                for v, tgt in sorted(arms.items()):
                    n += 1
                    if f.blocks[tgt]["t"]["k"] == "unreachable":
                        R.violation("R8.2", "%s/%s" % (fname, v), "variant %s::%s has no arm in %s" % (enum, v, f.name), f.loc(f.blocks[bi]["t"]))
                        continue
                    path = find_path(f, [tgt], lambda b: is_return(f, b), blocked=div)
                    if path is None:
                        R.violation("R8.2", "%s/%s" % (fname, v), "the %s::%s arm of %s always panics: that command kind cannot be checkpointed" % (enum, v, f.name), f.loc(f.blocks[tgt]["t"]))
                    else:
                        R.ok("R8.2", "%s/%s" % (fname, v), "arm reaches a normal exit", f.loc(f.blocks[tgt]["t"]), how="variant-coverage")
        if not found:
            raise AnchorError("R8.2: no match on %s in %s" % (enum, fname))
    R.floor("R8.2", "variant arms", n, 14)


def r8_3(F, R):
    R.rule("R8.3", "SaveStackElement and its serialisable twin have the same field set, and the two converters touch every field")
    a = F.adt("texlang::variable::SaveStackElement")
    b = F.adt("texlang::variable::SerializableSaveStackElement")
    fa = [f["name"] for f in a["variants"][0]["fields"]]
    fb = [f["name"] for f in b["variants"][0]["fields"]]
    for name in fa:
        if name in fb:
            R.ok("R8.3", "SaveStackElement.%s" % name, "has a serialisable twin field", "%s:%d" % (a["file"], a["line"]), how="field-set")
        else:
            R.violation("R8.3", "SaveStackElement.%s" % name, "save-stack field `%s` has no counterpart in SerializableSaveStackElement: values saved for "
                        "open groups are lost by a checkpoint" % name, "%s:%d" % (a["file"], a["line"]))
    for name in fb:
        if name not in fa:
            R.violation("R8.3", "SerializableSaveStackElement.%s" % name, "twin field without original", "%s:%d" % (b["file"], b["line"]))
    R.floor("R8.3", "save stack fields", len(fa), 7)
    # converters project every field
    for fname, src, dst in (("texlang::variable::SaveStackElement::serializable", "texlang::variable::SaveStackElement", "texlang::variable::SerializableSaveStackElement"),
                            ("texlang::variable::SerializableSaveStackElement::finish_deserialization", "texlang::variable::SerializableSaveStackElement", "texlang::variable::SaveStackElement")):
        fns = [f for f in F.fns.values() if strip_generics(f.name) == fname]
        if len(fns) != 1:
            raise AnchorError("R8.3: %s: %d matches" % (fname, len(fns)))
        f = fns[0]
        proj = {field for owner, variant, field, place, node, is_store in projections(f) if owner == src}
        for name in fa:
            if name in proj:
                R.ok("R8.3", "%s reads %s" % (fname.split("::")[-1], name), None, "%s:%d" % (f.file, f.line), how="field-coverage")
            else:
                R.violation("R8.3", "%s/%s" % (fname, name), "%s does not read field `%s`" % (f.name, name), "%s:%d" % (f.file, f.line))


LOSSY_ADAPTORS = {"filter", "filter_map", "skip", "skip_while", "take", "take_while", "step_by", "rev", "chain", "flat_map", "flatten", "zip",
                  "dedup", "dedup_by", "dedup_by_key", "scan", "map_while", "peekable", "fuse", "last", "nth", "find", "find_map", "position"}
LOSSY_VEC_OPS = {"resize", "resize_with", "truncate", "retain", "retain_mut", "remove", "swap_remove", "pop", "drain", "sort", "sort_by", "sort_by_key",
                 "sort_unstable", "reverse", "dedup", "clear", "split_off", "insert", "push", "extend", "append", "rotate_left", "rotate_right", "swap"}


def r8_4(F, R):
    from ..dataflow import Flow
    from ..cfg import Defs
    from .common import recv_fields
    R.rule("R8.4", "positional containers survive a checkpoint element for element: the conversion of the group save stack in SerializableVM::new and "
                   "finish_deserialization is an order- and length-preserving iterator chain (iter/into_iter/map/collect only — no filter, skip, rev, ...) "
                   "and the restored stack is not resized, truncated or reordered afterwards")
    insts = [("texlang::vm::serde::SerializableVM::new", "save_stack"), ("texlang::vm::serde::finish_deserialization", "save_stack")]
    for fname, field in insts:
        fns = [f for f in F.fns.values() if strip_generics(f.name) == fname]
        if len(fns) != 1:
            raise AnchorError("R8.4: %s: %d matches" % (fname, len(fns)))
        fn = fns[0]
        flow = Flow(fn)
        defs = Defs(fn)
        chain = []
        bad = []
        for bi, t in fn.calls():
            n = strip_generics(callee_name(t) or "")
            short = n.split("::")[-1]
            if not t["args"]:
                continue
            og = flow.operand_origins(t["args"][0])
            on_stack = ("field", field) in og
            if not on_stack:
                continue
            is_iter = "iter::" in n or n.endswith("::iter") or n.endswith("::into_iter") or n.endswith("::collect") or "Iterator" in n
            if is_iter:
                chain.append(short)
                if short in LOSSY_ADAPTORS:
                    bad.append((short, fn.loc(t)))
            elif "vec::Vec" in n and short in LOSSY_VEC_OPS:
                base, fp = recv_fields(fn, defs, t)
                if fp and fp[-1] == field:
                    bad.append((short, fn.loc(t)))
        inst = "%s/%s" % (fname, field)
        loc = "%s:%d" % (fn.file, fn.line)
        if not chain:
            raise AnchorError("R8.4: no iterator chain over %s in %s" % (field, fname))
        if bad:
            for short, l in bad:
                R.violation("R8.4", inst + "/" + short, "%s applies `%s` to the %s: elements are dropped, reordered or padded, so a value saved by an open group "
                            "is restored at a different `}` after a checkpoint" % (fn.name, short, field), l)
        else:
            R.ok("R8.4", inst, "chain: %s" % " -> ".join(chain), loc, how="iterator-shape")


def r8_5(F, R):
    """IterAll (the iterator the command map is serialised through): an item fetched from the backing container is looked up in key_to_val and
    then either yielded or skipped by fetching the next one."""
    from ..dataflow import Flow
    from ..cfg import find_path, is_return
    R.rule("R8.5", "GroupingContainer::iter_all yields every globally defined entry: in IterAll::next, after an entry of the backing container has "
                   "been looked up in key_to_val, every path to a return either builds Item::Value from it or fetches the next entry first "
                   "(no arm falls through to the group phase while visible entries remain)")
    fns = [f for f in F.fns.values() if "groupingmap::IterAll" in f.name and f.name.endswith("::next")]
    if len(fns) != 1:
        raise AnchorError("R8.5: IterAll::next: %d matches" % len(fns))
    fn = fns[0]
    flow = Flow(fn)
    lookups = []
    for bi, t in fn.calls():
        n = strip_generics(callee_name(t) or "")
        if n.endswith("HashMap::get") and t["args"] and ("field", "key_to_val") in flow.operand_origins(t["args"][0]):
            lookups.append((bi, t))
    if not lookups:
        raise AnchorError("R8.5: no key_to_val lookup in IterAll::next")
    for bi, t in lookups:
        # the calls the looked-up key derives from = the fetch of the current entry
        og = flow.operand_origins(t["args"][1])
        fetch_names = {v for k, v in og if k == "call" and v}
        fetch = {b for b, c in fn.calls() if (callee_name(c) in fetch_names) and b != bi}
        if not fetch:
            raise AnchorError("R8.5: cannot find the call fetching the entry looked up at %s" % fn.loc(t))
        yields = set()
        for b2, blk in enumerate(fn.blocks):
            for st in blk["s"]:
                if st["k"] == "=" and st["rv"]["k"] == "agg" and st["rv"].get("ak") == "adt" and st["rv"]["adt"].endswith("groupingmap::Item") and st["rv"]["variant"] == "Value":
                    yields.add(b2)
        tgt = t.get("t")
        if tgt is None or not yields:
            raise AnchorError("R8.5: lookup without normal target or no Item::Value yield in IterAll::next")
        path = find_path(fn, [tgt], lambda b: is_return(fn, b), blocked=fetch | yields)
        inst = "IterAll::next/lookup"
        if path:
            from .common import fmt_path
            R.violation("R8.5", inst, "IterAll::next can return without yielding the entry it looked up and without fetching the next one (%s): the remaining "
                        "global definitions are never serialised, so commands vanish after a checkpoint taken inside a group" % fmt_path(fn, path), fn.loc(t))
        else:
            R.ok("R8.5", inst, "yield blocks %d, fetch blocks %d; no bypass" % (len(yields), len(fetch)), fn.loc(t), how="path")


def r8_6(F, R):
    from ..dataflow import Flow, origin_calls
    R.rule("R8.6", "macros are de-duplicated by identity: in SerializableMap::new a table that maps to an index into `macros` (a HashMap<usize, usize> "
                   "probed with entry/get/insert) is keyed by the address of the macro's Rc (Rc::as_ptr); keyed by the control-sequence name, "
                   "the shadowing definitions of a name that is redefined inside an open group all collapse onto the outermost one")
    fn = [f for f in F.fns.values() if strip_generics(f.name) == "texlang::command::map::SerializableMap::new"]
    if len(fn) != 1:
        raise AnchorError("R8.6: SerializableMap::new: %d matches" % len(fn))
    fn = fn[0]
    probes = []
    bodies = [fn] + [g for g in F.fns.values() if g.name.startswith(fn.name + "::{closure")]
    for g in bodies:
        flow = None
        for bi, t in g.calls():
            n = strip_generics(callee_name(t) or "")
            if n.split("::")[-1] in ("entry", "get", "insert", "contains_key", "get_mut") and "HashMap" in n and len(t["args"]) >= 2:
                p = t["args"][0].get("cp") or t["args"][0].get("mv")
                ty = g.local_ty(p["l"]) if p is not None else ""
                if "HashMap<usize, usize" in ty:
                    flow = flow or Flow(g)
                    probes.append((g, t, origin_calls(flow.operand_origins(t["args"][1]))))
    loc = "%s:%d" % (fn.file, fn.line)
    if not probes:
        R.ok("R8.6", "SerializableMap::new", "no index de-duplication table", loc, how="def-use")
        return
    bad = [(g, t, oc) for g, t, oc in probes if not any(x.endswith("::as_ptr") for x in oc)]
    if bad:
        g, t, oc = bad[0]
        R.violation("R8.6", "SerializableMap::new/dedup-key", "the macro de-duplication table in SerializableMap::new is probed with a key that does not derive from "
                    "Rc::as_ptr of the macro (origins: %s)" % sorted(x.split("::")[-1] for x in oc)[:6], g.loc(t))
    else:
        R.ok("R8.6", "SerializableMap::new", "%d probe(s) keyed by Rc::as_ptr" % len(probes), loc, how="def-use")


def r8_7(F, R):
    import json, os
    from .common import narrowing_rule
    aud = json.load(open(os.path.join(os.path.dirname(os.path.dirname(os.path.dirname(os.path.abspath(__file__)))), "tables", "narrowing_audited.json")))
    words = ("serde", "serializ", "Serializ", "deserializ", "Deserializ")

    def in_scope(fn):
        if fn.crate not in ("texlang.lib", "texlang_stdlib.lib", "texcraft_stdext.lib") or "::_::" in fn.name or "::_#" in fn.name:
            return False
        return any(w in fn.name for w in words)
    narrowing_rule(F, R, "R8.7", "the hand-written checkpoint code (every function of texlang, texlang-stdlib and texcraft-stdext whose path names "
                   "serialisation: vm::serde, the `serializable` / `from_deserialized` / `finish_deserialization` converters): an index, length or "
                   "value that is narrowed on its way into the checkpoint comes back as a different one", in_scope, 0, aud)
    n = len([f for f in F.fns.values() if in_scope(f)])
    R.floor("R8.7", "hand-written checkpoint functions examined", n, 40)


def r8_8(F, R):
    from ..facts import const_str
    R.rule("R8.8", "names are unique in the serialised form: within one serialised type no two variants (and no two fields) are written under the same "
                   "name — the self-describing formats (JSON, MessagePack) identify a variant by its name, so two variants that share one "
                   "(`#[serde(rename = ..)]` copied from the neighbouring line) come back as the first of them")
    n = 0
    for fn in sorted(F.fns.values(), key=lambda f: f.name):
        nm = fn.name
        if "serde::ser::Serialize for " not in nm or not nm.endswith("::serialize"):
            continue
        if fn.crate.endswith(".test") or "::tests::" in nm:
            continue
        variants = {}
        fields = {}
        for bi, t in fn.calls():
            cn = strip_generics(callee_name(t) or "").split("::")[-1]
            strs = [const_str(a["c"]) if isinstance(a, dict) and a.get("c") is not None else None for a in t.get("args") or []]
            strs = [s for s in strs if isinstance(s, str)]
            if cn in ("serialize_unit_variant", "serialize_newtype_variant", "serialize_tuple_variant", "serialize_struct_variant") and len(strs) >= 2:
                idx = [a["c"].get("int") for a in t["args"] if isinstance(a, dict) and isinstance(a.get("c"), dict) and "int" in a["c"]]
                variants.setdefault(strs[-1], set()).add(idx[0] if idx else bi)
            if cn == "serialize_field" and strs:
                fields.setdefault(strs[0], set()).add(bi)
        if not variants and not fields:
            continue
        n += 1
        ty = nm.split("Serialize for ")[1].split(">::serialize")[0]
        loc = "%s:%d" % (fn.file, fn.line)
        dup_v = sorted(k for k, v in variants.items() if len(v) > 1)
        if dup_v:
            R.violation("R8.8", ty + "/variant-names", "%s writes %d variants under the name %r: JSON and MessagePack read all of them back as the first one" % (
                ty, len(variants[dup_v[0]]), dup_v[0]), loc)
        else:
            R.ok("R8.8", ty, "%d variant names, %d field names, all distinct" % (len(variants), len(fields)), loc, how="table")
    R.floor("R8.8", "serialised types with named variants or fields", n, 30)


def r8_9(F, R):
    R.rule("R8.9", "a sequence comes back in the order it was written: the hand-written reading side of the checkpoint code (Deserialize impls, `finish_deserialization`, `from_deserialized`) never applies an "
                   "order-changing operation to a collection it has just read — `swap_remove`, `sort*`, `reverse`, `dedup*`, `rotate_*`, `retain` — "
                   "a macro's delimiter, a save stack or an interner read back in another order is a different state")
    # the reading side only: on the writing side a sort (for a deterministic file) is harmless as long as the reader does not depend on the
    # order, and what the reader depends on is decided by R8.4 (save stack) and R8.1
    words = ("deserializ", "Deserializ", "from_deserialized", "serde::de::")
    BAD = ("swap_remove", "sort", "sort_by", "sort_by_key", "sort_unstable", "sort_unstable_by", "sort_unstable_by_key", "reverse", "dedup", "dedup_by",
           "dedup_by_key", "rotate_left", "rotate_right", "retain", "retain_mut", "swap")
    n = 0
    for fn in sorted(F.fns.values(), key=lambda f: f.name):
        if fn.crate not in ("texlang.lib", "texlang_stdlib.lib", "texcraft_stdext.lib", "common.lib") or "::tests::" in fn.name:
            continue
        if not any(w in fn.name for w in words):
            continue
        if "::_::" in fn.name and "<impl serde::" in fn.name and fn.raw.get("mac") in ("Serialize", "Deserialize", "serde::Serialize", "serde::Deserialize"):
            continue
        n += 1
        k = 0
        for bi, t in fn.calls():
            cn = strip_generics(callee_name(t) or "")
            last = cn.split("::")[-1]
            if last in BAD and ("Vec" in cn or "slice" in cn or "[T]" in cn or "VecDeque" in cn):
                R.violation("R8.9", "%s/%s#%d" % (strip_generics(fn.name), last, k), "%s applies `%s` to a collection while (de)serialising: the elements come back in "
                            "a different order than they were written" % (fn.name, last), fn.loc(t))
                k += 1
    R.floor("R8.9", "hand-written functions of the reading side examined", n, 10)


def run(F, R, tier):
    r8_9(F, R)
    r8_8(F, R)
    r8_7(F, R)
    r8_1(F, R, tier)
    r8_6(F, R)
    r8_4(F, R)
    r8_5(F, R)
    r8_2(F, R)
    r8_3(F, R)
    return ("Static analysis over MIR facts (including derive(Serialize/Deserialize) output, analysed as ordinary MIR). Decides that every field "
            "of every type on the serialised state graph is written and restored or is audited as reconstructible (R8.1), that every command "
            "variant has a (de)serialisation arm that does not always panic (R8.2) and that the save-stack twin types agree (R8.3). "
            "It does not decide that the restored VM behaves identically.")
