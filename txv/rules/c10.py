"""C10 — TFM/PL readers (partial): explicit/unwrap sites and narrow arithmetic
reachable from the conversion entry points."""
from ..pps_run import run_pps
from ..facts import strip_generics, callee_name, AnchorError
from ..dataflow import op_place

CHA = {"tfm.lib", "tftopl.bin", "pltotf.bin", "common.lib"}
ENTRIES = ["tfm::algorithms::tfm_to_pl", "tfm::algorithms::pl_to_tfm", "pltotf::Cli::run", "tftopl::Cli::run"]
NARROW = ("u8", "i8", "i16", "u16")


def r10_3(F, R):
    """every declared sub-file size is checked non-negative before the table slicing uses it"""
    from ..cfg import dominators
    from ..dataflow import Flow, op_place
    from ..facts import AnchorError, callee_name
    R.rule("R10.3", "guard coverage: every i16 field of SubFileSizes except lf is compared `< 0` (directly, or as an element of an array whose elements are "
                    "tested by an `any`/`all` closure) on a block that dominates the call of finish_deserialization, whose slicing multiplies each size by 4 as usize")
    adt = F.adt("tfm::deserialize::SubFileSizes")
    fields = [f["name"] for f in adt["variants"][0]["fields"] if f["ty"] == "i16" and f["name"] != "lf"]
    fns = [f for f in F.fns.values() if strip_generics(f.name) == "tfm::deserialize::RawFile::deserialize"]
    if len(fns) != 1:
        raise AnchorError("RawFile::deserialize: %d matches" % len(fns))
    fn = fns[0]
    flow = Flow(fn)
    dom = dominators(fn)
    calls = [bi for bi, t in fn.calls() if strip_generics(callee_name(t) or "").endswith("RawFile::finish_deserialization")]
    if not calls:
        raise AnchorError("R10.3: finish_deserialization call not found")
    covered = {}
    for bi, b in enumerate(fn.blocks):
        if not all(bi in dom[c] for c in calls):
            continue
        for st in b["s"]:
            if st["k"] == "=" and st["rv"]["k"] == "bin" and st["rv"]["op"] in ("Lt", "Le") and st["rv"]["b"].get("c", {}).get("int") in (0, -1):
                og = flow.operand_origins(st["rv"]["a"])
                for k, v in og:
                    if k == "field" and v in fields:
                        covered.setdefault(v, fn.loc(st))
        t = b["t"]
        if t["k"] == "call" and strip_generics(callee_name(t) or "").split("::")[-1] in ("any", "all"):
            og = flow.operand_origins(t["args"][0])
            # the closure must compare its element with 0
            clos_ok = False
            for cid in F.closures_of(fn.id):
                for cb in F.fns[cid].blocks:
                    for st in cb["s"]:
                        if st["k"] == "=" and st["rv"]["k"] == "bin" and st["rv"]["op"] in ("Lt", "Le", "Ge", "Gt") and st["rv"]["b"].get("c", {}).get("int") in (0, -1):
                            clos_ok = True
            if clos_ok:
                for k, v in og:
                    if k == "field" and v in fields:
                        covered.setdefault(v, fn.loc(t))
    for f in fields:
        key = "SubFileSizes.%s" % f
        if f in covered:
            R.ok("R10.3", key, "checked non-negative at %s" % covered[f], covered[f], how="guard-coverage")
        else:
            R.violation("R10.3", key, "the declared size `%s` is never checked to be non-negative before finish_deserialization slices the file with "
                        "`(%s as usize) * 4`: a negative value panics (multiply with overflow / slice out of range)" % (f, f), "%s:%d" % (fn.file, fn.line))
    R.floor("R10.3", "sub-file size fields", len(fields), 11)


def r10_4(F, R):
    from ..cfg import Defs, reachable
    R.rule("R10.4", "PL reader: every warning that can be in `errors` when File::from_ast sorts them by `knuth_pltotf_offset.expect(..)` carries an offset: "
                    "each ParseWarning built in from_ast (or a closure created in it) on a path that reaches the sort has `knuth_pltotf_offset: Some(..)`; "
                    "a warning without one makes the sort's key function panic as soon as the file has a second warning")
    fa = [f for f in F.fns.values() if strip_generics(f.name) == "tfm::pl::File::from_ast"]
    if len(fa) != 1:
        raise AnchorError("R10.4: from_ast: %d matches" % len(fa))
    fa = fa[0]
    sorts = [bi for bi, t in fa.calls() if strip_generics(callee_name(t) or "").endswith("::sort_by_key")]
    if len(sorts) != 1:
        raise AnchorError("R10.4: %d sort_by_key calls in from_ast" % len(sorts))
    sort_b = sorts[0]
    reach_sort = {b for b in range(len(fa.blocks)) if b == sort_b or sort_b in reachable(fa, b)}
    # closures created before the sort
    early_closures = set()
    for bi, b in enumerate(fa.blocks):
        for st in b["s"]:
            if st["k"] == "=" and st["rv"]["k"] == "agg" and st["rv"].get("ak") == "closure" and bi in reach_sort:
                early_closures.add(st["rv"]["closure"])
    n = 0
    bodies = [(fa, reach_sort)]
    for f in F.fns.values():
        if f.name.startswith(fa.name + "::{closure") and any(f.name == c or f.name.startswith(c + "::") or f.id == c for c in early_closures):
            bodies.append((f, None))
    for fn, rs in bodies:
        defs = Defs(fn)
        for bi, b in enumerate(fn.blocks):
            if b.get("cleanup") or (rs is not None and bi not in rs):
                continue
            for st in b["s"]:
                if not (st["k"] == "=" and st["rv"]["k"] == "agg" and st["rv"].get("ak") == "adt" and st["rv"]["adt"].endswith("pl::error::ParseWarning")):
                    continue
                n += 1
                ops = st["rv"]["ops"]
                # field order: span, knuth_pltotf_offset, kind
                off, kind = ops[1], ops[2]

                def agg_of(o):
                    p = op_place(o)
                    d = defs.single(p["l"]) if p is not None and not p["p"] else None
                    while d and d[0] == "st" and d[3]["k"] == "=" and d[3]["rv"]["k"] == "use":
                        p = op_place(d[3]["rv"]["op"])
                        d = defs.single(p["l"]) if p is not None and not p["p"] else None
                    if d and d[0] == "st" and d[3]["k"] == "=" and d[3]["rv"]["k"] == "agg" and d[3]["rv"].get("ak") == "adt":
                        return d[3]["rv"]
                    return None
                oa, ka = agg_of(off), agg_of(kind)
                kname = ka["variant"] if ka else "?"
                inst = "from_ast/offset:%s" % kname
                if oa is not None and oa["variant"] == "None":
                    R.violation("R10.4", inst, "File::from_ast pushes the warning %s with `knuth_pltotf_offset: None` before the warnings are sorted by "
                                "`knuth_pltotf_offset.expect(..)`: with two or more warnings in the file pl_to_tfm panics" % kname, fn.loc(st))
                else:
                    R.ok("R10.4", inst, "offset populated", fn.loc(st), how="aggregate")
    R.floor("R10.4", "warnings built before the sort", n, 2)


def narrow_only(fn, site):
    return True  # every site kind is armed everywhere (triage complete)
    """K3 is armed only for Add/Sub/Mul on <=16-bit integers (R10.2); other K3/K4 are not decided"""
    if site.kind in ("K1", "K2"):
        return True
    if site.kind == "K3" and site.what.startswith("Overflow:") and site.what.split(":")[1] in ("Add", "Sub", "Mul"):
        tys = site.key.split("|")[3].rsplit("#", 1)[0].split(",")
        return any(t in NARROW for t in tys)
    # the TFM reader proper: every site kind is armed (triage of deserialize.rs complete)
    if fn.file == "crates/tfm/src/deserialize.rs":
        return True
    # string slicing: a byte offset that is not a character boundary panics
    if site.kind == "K4" and site.what.startswith("index:") and ("alloc::string::String" in site.what or "for str>" in site.what or "<str as" in site.what):
        return True
    return False


def r10_5(F, R):
    import json, os
    from .common import narrowing_rule
    aud = json.load(open(os.path.join(os.path.dirname(os.path.dirname(os.path.dirname(os.path.abspath(__file__)))), "tables", "narrowing_audited.json")))
    narrowing_rule(F, R, "R10.5", "the tfm crate and the tftopl / pltotf tools",
                   lambda fn: fn.crate in ("tfm.lib", "tftopl.bin", "pltotf.bin") and "arbitrary::Arbitrary" not in fn.name, 10, aud)


def r10_7(F, R):
    from ..cfg import Defs, reachable
    from ..dataflow import op_place
    from ..facts import AnchorError, callee_name
    R.rule("R10.7", "the declared file length is checked in whole bytes: RawFile::deserialize compares the number of bytes it was given with 4*lf (or "
                    "the number of *complete* words, len / 4, with lf) and the table slicing (finish_deserialization) is not reachable when fewer "
                    "bytes are present — a check that rounds the byte count *up* to words accepts a file cut inside its last word, and the "
                    "slicing then runs past the end")
    fns = [f for f in F.fns.values() if strip_generics(f.name) == "tfm::deserialize::RawFile::deserialize"]
    if len(fns) != 1:
        raise AnchorError("RawFile::deserialize: %d matches" % len(fns))
    fn = fns[0]
    D = Defs(fn)
    fin = [bi for bi, t in fn.calls() if strip_generics(callee_name(t) or "").endswith("finish_deserialization")]
    if not fin:
        raise AnchorError("R10.7: finish_deserialization is not called from RawFile::deserialize")

    def shape(o, depth=6):
        """'len' | 'len/4' | 'x*4' | 'x' for an operand, through copies, references and checked-arithmetic pairs"""
        p = op_place(o)
        for _ in range(depth):
            if p is None:
                return "const"
            d = D.single(p["l"])
            if d is None:
                return "x"
            if d[0] == "call":
                n = strip_generics(callee_name(d[3]) or "").split("::")[-1]
                return "len" if n == "len" else "call:" + n
            rv = d[3].get("rv", {})
            k = rv.get("k")
            if k == "ref":
                p = {"l": rv["pl"]["l"], "p": []}
            elif k in ("use", "cast"):
                p = op_place(rv["op"])
            elif k == "bin" and rv["op"] in ("Mul", "MulWithOverflow") and (rv["b"].get("c") or {}).get("int") == 4:
                return "x*4"
            elif k == "bin" and rv["op"] in ("Div",) and (rv["b"].get("c") or {}).get("int") == 4 and shape(rv["a"], depth - 1) == "len":
                return "len/4"
            elif k == "bin" and rv["op"] in ("Shr",) and (rv["b"].get("c") or {}).get("int") == 2 and shape(rv["a"], depth - 1) == "len":
                return "len/4"
            else:
                return "x"
        return "x"
    GOOD = {("len", "x*4"), ("len/4", "x")}
    less_targets = []     # blocks entered when fewer bytes than declared are present
    found = 0
    for bi, b in enumerate(fn.blocks):
        t = b["t"]
        if t["k"] == "call" and strip_generics(callee_name(t) or "").split("::")[-1] == "cmp" and len(t["args"]) == 2 and t.get("t") is not None:
            sa, sb = shape(t["args"][0]), shape(t["args"][1])
            if (sa, sb) in GOOD or (sb, sa) in GOOD:
                found += 1
                res = t["dest"]["l"]
                less_is = "Less" if (sa, sb) in GOOD else "Greater"
                for b2 in fn.blocks:
                    t2 = b2["t"]
                    if t2["k"] != "switch":
                        continue
                    p = op_place(t2["op"])
                    for st in b2["s"]:
                        if p is not None and st["k"] == "=" and st["lhs"]["l"] == p["l"] and st["rv"]["k"] == "discr" and st["rv"]["pl"]["l"] == res:
                            vs = F.enum_variants(st["rv"]["ty"]) or []
                            m = dict((v, bb) for v, bb in t2["ts"])
                            for name, dv, vi in vs:
                                if name == less_is:
                                    less_targets.append(m.get(dv, t2["else"]))
        for st in b["s"]:
            if st["k"] == "=" and st["rv"]["k"] == "bin" and st["rv"]["op"] in ("Lt", "Le", "Gt", "Ge") and t["k"] == "switch":
                p = op_place(t["op"])
                if p is None or p["l"] != st["lhs"]["l"]:
                    continue
                sa, sb = shape(st["rv"]["a"]), shape(st["rv"]["b"])
                op = st["rv"]["op"]
                if (sb, sa) in GOOD:
                    sa, sb = sb, sa
                    op = {"Lt": "Gt", "Le": "Ge", "Gt": "Lt", "Ge": "Le"}[op]
                if (sa, sb) not in GOOD:
                    continue
                found += 1
                m = dict((v, bb) for v, bb in t["ts"])
                true_t = t["else"] if 0 in m else m.get(1)
                false_t = m.get(0, t["else"])
                # bytes < declared  <=>  `len < x*4` true, or `len >= x*4` false
                if op == "Lt":
                    less_targets.append(true_t)
                elif op == "Ge":
                    less_targets.append(false_t)
                # `<=` / `>` do not separate "fewer" from "exactly": not a witness
    loc = "%s:%d" % (fn.file, fn.line)
    if not found or not less_targets:
        R.violation("R10.7", "RawFile::deserialize/length-check", "RawFile::deserialize has no comparison of the byte count (`b.len()`) with 4*lf, or of the "
                    "complete words (`b.len() / 4`) with lf, that separates a short file: a file cut inside its last word reaches the table slicing", loc)
        return
    bad = [lt for lt in less_targets if lt is not None and any(f in reachable(fn, lt) for f in fin)]
    if bad:
        R.violation("R10.7", "RawFile::deserialize/length-check", "the table slicing (finish_deserialization) is reachable from the `fewer bytes than declared` "
                    "outcome of the length check (%s)" % fn.loc(fn.blocks[bad[0]]["t"]), loc)
    else:
        R.ok("R10.7", "RawFile::deserialize/length-check", "short files leave before the slicing (%d comparison%s in byte units)" % (found, "" if found == 1 else "s"), loc, how="path")


def run(F, R, tier):
    r10_7(F, R)
    R.rule("R10.1", "explicit panics and the unwrap family in every function reachable from tfm_to_pl / pl_to_tfm are discharged or findings")
    R.rule("R10.2", "every assert terminator (overflow, division, bounds) and every curated panicking std call (indexing, slicing, split_at, rotate, "
                    "to_digit, RefCell, ...) reachable from the entry points — the tfm crate, the two command line tools and the common crate — is "
                    "discharged (constant, dominating guard, type/width argument) or audited with a per-site invariant, or a reproduced finding")
    kinds = ("K1", "K2", "K3", "K4")
    r10_3(F, R)
    r10_4(F, R)
    r10_5(F, R)

    def armed(fn, site):
        return narrow_only(fn, site)
    # one run, two rule labels: K1/K2 -> R10.1, narrow K3 -> R10.2
    class Split:
        def __init__(self, R):
            self.R = R
        def __getattr__(self, name):
            return getattr(self.R, name)
    not_arbitrary = lambda fn: "arbitrary::Arbitrary" not in fn.name  # fuzzing support generated by derive(Arbitrary), not on the conversion path
    seen = run_pps(F, R, "R10", ENTRIES, kinds, CHA, armed=armed, crate_scope={"tfm.lib", "tftopl.bin", "pltotf.bin", "common.lib"}, fn_filter=not_arbitrary, floor_fns=300, floor_sites=60,
                   what=": arbitrary bytes / text must give a result or a documented error")
    import json, os
    from .common import recursion_rule
    tab = json.load(open(os.path.join(os.path.dirname(os.path.dirname(os.path.dirname(os.path.abspath(__file__)))), "tables", "recursion_audited.json")))
    recursion_rule(F, R, "R10.6", "the TFM/PL conversions", seen, {"tfm.lib", "tftopl.bin", "pltotf.bin", "common.lib"}, tab)
    return ("Static analysis (partial claim). Decided: every potential-panic site (explicit panics, unwrap family, assert terminators, curated std calls) "
            "reachable from tfm_to_pl / pl_to_tfm / the tftopl and pltotf tools is discharged (constant, dominating guard, type), audited with a per-site "
            "invariant (some re-checked by `requires` clauses), or a reproduced finding; the eleven sub-file sizes are checked non-negative before slicing "
            "(R10.3); every warning sorted by offset carries one (R10.4). The audited invariants are hand arguments: they are the trusted part. NOT "
            "decided: that PL->TFM output is re-readable, and allocation size / termination.")
