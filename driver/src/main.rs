// txv-driver: fact extractor for the texcraft static verification rules.
//
// Runs as RUSTC_WORKSPACE_WRAPPER under `cargo +nightly check`.  After
// analysis it lowers every fn/closure MIR body, every ADT, impl and static of
// the crate to a small JSON IR (one file per rustc process) in $TXV_FACTS_DIR.
// It never decides anything; the Python rule engine does.
#![feature(rustc_private)]
#![allow(clippy::all)]

extern crate rustc_abi;
extern crate rustc_data_structures;
extern crate rustc_driver;
extern crate rustc_hir;
extern crate rustc_interface;
extern crate rustc_middle;
extern crate rustc_session;
extern crate rustc_span;

use rustc_hir::def::DefKind;
use rustc_hir::def_id::{DefId, LOCAL_CRATE};
use rustc_middle::mir::{self, *};
use rustc_middle::ty::print::{with_crate_prefix, with_no_trimmed_paths, with_no_visible_paths};
use rustc_middle::ty::{self, Instance, Ty, TyCtxt, TypingEnv};
use rustc_span::Span;
use std::collections::BTreeMap;
use std::fmt::Write as _;

// ---------------------------------------------------------------- JSON

enum V {
    Null,
    B(bool),
    I(i128),
    S(String),
    A(Vec<V>),
    O(Vec<(&'static str, V)>),
}

fn s<T: Into<String>>(x: T) -> V {
    V::S(x.into())
}

impl V {
    fn write(&self, out: &mut String) {
        match self {
            V::Null => out.push_str("null"),
            V::B(b) => out.push_str(if *b { "true" } else { "false" }),
            V::I(i) => {
                let _ = write!(out, "{}", i);
            }
            V::S(st) => write_str(st, out),
            V::A(a) => {
                out.push('[');
                for (i, v) in a.iter().enumerate() {
                    if i > 0 {
                        out.push(',');
                    }
                    v.write(out);
                }
                out.push(']');
            }
            V::O(o) => {
                out.push('{');
                for (i, (k, v)) in o.iter().enumerate() {
                    if i > 0 {
                        out.push(',');
                    }
                    write_str(k, out);
                    out.push(':');
                    v.write(out);
                }
                out.push('}');
            }
        }
    }
}

fn write_str(st: &str, out: &mut String) {
    out.push('"');
    for c in st.chars() {
        match c {
            '"' => out.push_str("\\\""),
            '\\' => out.push_str("\\\\"),
            '\n' => out.push_str("\\n"),
            '\r' => out.push_str("\\r"),
            '\t' => out.push_str("\\t"),
            c if (c as u32) < 0x20 => {
                let _ = write!(out, "\\u{:04x}", c as u32);
            }
            c => out.push(c),
        }
    }
    out.push('"');
}

// ---------------------------------------------------------------- helpers

struct Cx<'tcx> {
    tcx: TyCtxt<'tcx>,
    ext_enums: BTreeMap<String, V>,
}

thread_local! {
    static CRATE: std::cell::RefCell<String> = std::cell::RefCell::new(String::new());
    static IS_BIN: std::cell::RefCell<bool> = std::cell::RefCell::new(false);
}

/// Replace the `crate::` prefix the printer emits for local items by the
/// crate's own name, so that paths read the same from every crate.
fn fix(st: String) -> String {
    if !st.contains("crate::") {
        return st;
    }
    let name = CRATE.with(|c| c.borrow().clone());
    let mut out = String::with_capacity(st.len() + 16);
    let bytes = st.as_bytes();
    let mut i = 0;
    while i < bytes.len() {
        if st[i..].starts_with("crate::")
            && (i == 0 || !(bytes[i - 1].is_ascii_alphanumeric() || bytes[i - 1] == b'_'))
        {
            out.push_str(&name);
            out.push_str("::");
            i += 7;
        } else {
            let ch = st[i..].chars().next().unwrap();
            out.push(ch);
            i += ch.len_utf8();
        }
    }
    out
}

macro_rules! np {
    ($e:expr) => {
        fix(with_crate_prefix!(with_no_visible_paths!(with_no_trimmed_paths!($e))))
    };
}

/// discriminant value with the sign its integer type gives it
fn discr_val<'tcx>(d: ty::util::Discr<'tcx>) -> i128 {
    if let ty::Int(it) = d.ty.kind() {
        let bits = it.bit_width().unwrap_or(64) as u32;
        if bits < 128 {
            let shift = 128 - bits;
            return ((d.val as i128) << shift) >> shift;
        }
    }
    d.val as i128
}

fn ty_s<'tcx>(ty: Ty<'tcx>) -> String {
    np!(ty.to_string())
}

impl<'tcx> Cx<'tcx> {
    fn def_id_s(&self, did: DefId) -> String {
        // Items of a binary target get a `[bin]` marker so that they cannot
        // collide with the library target of the same package name.
        let bin = did.is_local() && IS_BIN.with(|b| *b.borrow());
        format!(
            "{}{}{}",
            self.tcx.crate_name(did.krate),
            if bin { "[bin]" } else { "" },
            self.tcx.def_path(did).to_string_no_crate_verbose()
        )
    }

    fn def_name(&self, did: DefId) -> String {
        np!(self.tcx.def_path_str(did))
    }

    /// (file, line) of the outermost call site of `span`, plus the outermost
    /// macro name if the span comes from an expansion.
    fn span_info(&self, span: Span) -> (String, i128, Option<String>) {
        let mut mac = None;
        let mut sp = span;
        if span.from_expansion() {
            // macro_backtrace goes from innermost to outermost.
            for ed in span.macro_backtrace() {
                let name = match ed.kind {
                    rustc_span::ExpnKind::Macro(_, n) => Some(n.to_string()),
                    rustc_span::ExpnKind::Desugaring(d) => Some(format!("desugar:{:?}", d)),
                    _ => None,
                };
                if let Some(n) = name {
                    mac = Some(n);
                }
                sp = ed.call_site;
            }
        }
        let sm = self.tcx.sess.source_map();
        let loc = sm.lookup_char_pos(sp.lo());
        let file = match &loc.file.name {
            rustc_span::FileName::Real(r) => match r.local_path() {
                Some(p) => p.to_string_lossy().to_string(),
                None => format!("{:?}", r),
            },
            other => format!("{:?}", other),
        };
        (file, loc.line as i128, mac)
    }

    /// Every macro on the backtrace, innermost first.
    fn macro_chain(&self, span: Span) -> Vec<String> {
        let mut v = vec![];
        if span.from_expansion() {
            for ed in span.macro_backtrace() {
                if let rustc_span::ExpnKind::Macro(_, n) = ed.kind {
                    v.push(n.to_string());
                }
            }
        }
        v
    }

    fn snippet(&self, span: Span) -> String {
        let mut sp = span;
        if span.from_expansion() {
            for ed in span.macro_backtrace() {
                sp = ed.call_site;
            }
        }
        let sm = self.tcx.sess.source_map();
        match sm.span_to_snippet(sp) {
            Ok(mut t) => {
                if t.len() > 100 {
                    let mut cut = 100;
                    while !t.is_char_boundary(cut) {
                        cut -= 1;
                    }
                    t.truncate(cut);
                }
                t.split_whitespace().collect::<Vec<_>>().join(" ")
            }
            Err(_) => String::new(),
        }
    }

    fn note_enum(&mut self, ty: Ty<'tcx>) {
        if let ty::Adt(adt, _) = ty.kind() {
            if adt.is_enum() {
                let name = self.def_name(adt.did());
                if !self.ext_enums.contains_key(&name) {
                    let mut vs = vec![];
                    for (vi, d) in adt.discriminants(self.tcx) {
                        let v = adt.variant(vi);
                        vs.push(V::A(vec![s(v.name.to_string()), V::I(discr_val(d)), V::I(vi.as_u32() as i128)]));
                    }
                    self.ext_enums.insert(name, V::A(vs));
                }
            }
        }
    }
}

struct BodyCx<'a, 'tcx> {
    cx: &'a mut Cx<'tcx>,
    body: &'a Body<'tcx>,
    env: TypingEnv<'tcx>,
}

impl<'a, 'tcx> BodyCx<'a, 'tcx> {
    fn place(&mut self, p: &Place<'tcx>) -> V {
        let tcx = self.cx.tcx;
        let mut projs = vec![];
        let mut pty = mir::PlaceTy::from_ty(self.body.local_decls[p.local].ty);
        for elem in p.projection.iter() {
            let v = match elem {
                ProjectionElem::Deref => s("*"),
                ProjectionElem::Field(f, fty) => {
                    let mut name = String::new();
                    match pty.ty.kind() {
                        ty::Adt(adt, _) => {
                            let vi = pty.variant_index.unwrap_or(rustc_abi::FIRST_VARIANT);
                            if (vi.as_usize()) < adt.variants().len() {
                                let var = adt.variant(vi);
                                if f.as_usize() < var.fields.len() {
                                    name = var.fields[f].name.to_string();
                                }
                            }
                        }
                        _ => {}
                    }
                    V::O(vec![("f", V::I(f.as_u32() as i128)), ("n", s(name)), ("t", s(ty_s(fty)))])
                }
                ProjectionElem::Index(l) => V::O(vec![("ix", V::I(l.as_u32() as i128))]),
                ProjectionElem::ConstantIndex { offset, min_length, from_end } => V::O(vec![
                    ("cix", V::I(offset as i128)),
                    ("min", V::I(min_length as i128)),
                    ("end", V::B(from_end)),
                ]),
                ProjectionElem::Subslice { from, to, from_end } => {
                    V::O(vec![("sub", V::A(vec![V::I(from as i128), V::I(to as i128), V::B(from_end)]))])
                }
                ProjectionElem::Downcast(name, vi) => V::O(vec![
                    ("dc", V::I(vi.as_u32() as i128)),
                    ("n", s(name.map(|x| x.to_string()).unwrap_or_default())),
                ]),
                ProjectionElem::OpaqueCast(_) => s("opaque"),
                ProjectionElem::UnwrapUnsafeBinder(_) => s("unbind"),
            };
            projs.push(v);
            pty = pty.projection_ty(tcx, elem);
        }
        V::O(vec![("l", V::I(p.local.as_u32() as i128)), ("p", V::A(projs))])
    }

    fn place_ty(&self, p: &Place<'tcx>) -> Ty<'tcx> {
        p.ty(&self.body.local_decls, self.cx.tcx).ty
    }

    fn fn_ref(&mut self, def_id: DefId, args: ty::GenericArgsRef<'tcx>, resolve: bool) -> Vec<(&'static str, V)> {
        let tcx = self.cx.tcx;
        let mut o = vec![
            ("fn", s(self.cx.def_name(def_id))),
            ("id", s(self.cx.def_id_s(def_id))),
            ("args", V::A(args.iter().map(|a| s(np!(a.to_string()))).collect())),
        ];
        if let Some(tr) = tcx.trait_of_assoc(def_id) {
            o.push(("trait", s(self.cx.def_name(tr))));
            if args.len() > 0 {
                if let Some(t) = args[0].as_type() {
                    o.push(("self_ty", s(ty_s(t))));
                }
            }
        }
        if resolve {
            let kind = tcx.def_kind(def_id);
            if matches!(kind, DefKind::Fn | DefKind::AssocFn) {
                let r = std::panic::catch_unwind(std::panic::AssertUnwindSafe(|| {
                    Instance::try_resolve(tcx, self.env, def_id, args)
                }));
                if let Ok(Ok(Some(inst))) = r {
                    let rd = inst.def_id();
                    let kind_s = format!("{:?}", inst.def);
                    let kind_s = kind_s.split(|c| c == '(' || c == ' ' || c == '{').next().unwrap_or("").to_string();
                    o.push(("rid", s(self.cx.def_id_s(rd))));
                    o.push(("rfn", s(self.cx.def_name(rd))));
                    o.push(("rkind", s(kind_s)));
                    o.push((
                        "rargs",
                        V::A(inst.args.iter().map(|a| s(np!(a.to_string()))).collect()),
                    ));
                }
            }
        }
        o
    }

    fn constant(&mut self, c: &ConstOperand<'tcx>) -> V {
        let tcx = self.cx.tcx;
        let ty = c.const_.ty();
        let mut o: Vec<(&'static str, V)> = vec![("ty", s(ty_s(ty)))];
        match ty.kind() {
            ty::FnDef(def_id, args) => {
                let mut f = self.fn_ref(*def_id, args, true);
                o.append(&mut f);
                return V::O(vec![("c", V::O(o))]);
            }
            _ => {}
        }
        if let Some(did) = c.check_static_ptr(tcx) {
            o.push(("static", s(self.cx.def_name(did))));
            return V::O(vec![("c", V::O(o))]);
        }
        let is_scalar_ty = ty.is_integral() || ty.is_bool() || ty.is_char();
        if is_scalar_ty {
            let r = std::panic::catch_unwind(std::panic::AssertUnwindSafe(|| {
                c.const_.try_eval_scalar_int(tcx, self.env)
            }));
            if let Ok(Some(si)) = r {
                let size = si.size();
                let val: i128 = if ty.is_signed() { si.to_int(size) } else { si.to_uint(size) as i128 };
                o.push(("int", V::I(val)));
                return V::O(vec![("c", V::O(o))]);
            }
        }
        // &str constants
        if let Const::Val(ConstValue::Slice { .. }, _) = c.const_ {
            if let ty::Ref(_, inner, _) = ty.kind() {
                if inner.is_str() {
                    if let Const::Val(cv, _) = c.const_ {
                        if let Some(bytes) = cv.try_get_slice_bytes_for_diagnostics(tcx) {
                            o.push(("str", s(String::from_utf8_lossy(bytes).to_string())));
                            return V::O(vec![("c", V::O(o))]);
                        }
                    }
                }
            }
        }
        let txt = np!(format!("{}", c.const_));
        let mut txt = txt;
        if txt.len() > 200 {
            let mut cut = 200;
            while !txt.is_char_boundary(cut) {
                cut -= 1;
            }
            txt.truncate(cut);
        }
        o.push(("text", s(txt)));
        if let Const::Unevaluated(u, _) = c.const_ {
            o.push(("uneval", s(self.cx.def_name(u.def))));
            if let Some(p) = u.promoted {
                o.push(("promoted", V::I(p.as_u32() as i128)));
            }
        }
        V::O(vec![("c", V::O(o))])
    }

    fn operand(&mut self, op: &Operand<'tcx>) -> V {
        match op {
            Operand::Copy(p) => V::O(vec![("cp", self.place(p))]),
            Operand::Move(p) => V::O(vec![("mv", self.place(p))]),
            Operand::Constant(c) => self.constant(c),
            Operand::RuntimeChecks(rc) => V::O(vec![("rc", s(format!("{:?}", rc)))]),
        }
    }

    fn rvalue(&mut self, rv: &Rvalue<'tcx>) -> V {
        let tcx = self.cx.tcx;
        match rv {
            Rvalue::Use(op, _) => V::O(vec![("k", s("use")), ("op", self.operand(op))]),
            Rvalue::Repeat(op, n) => V::O(vec![
                ("k", s("repeat")),
                ("op", self.operand(op)),
                ("n", s(np!(n.to_string()))),
            ]),
            Rvalue::Ref(_, bk, p) => V::O(vec![
                ("k", s("ref")),
                ("mut", V::B(matches!(bk, BorrowKind::Mut { .. }))),
                ("pl", self.place(p)),
            ]),
            Rvalue::ThreadLocalRef(d) => V::O(vec![("k", s("tls")), ("static", s(self.cx.def_name(*d)))]),
            Rvalue::RawPtr(k, p) => V::O(vec![
                ("k", s("rawptr")),
                ("mut", V::B(matches!(k, RawPtrKind::Mut))),
                ("pl", self.place(p)),
            ]),
            Rvalue::Cast(kind, op, ty) => {
                let ks = match kind {
                    CastKind::PointerCoercion(pc, _) => format!("{:?}", pc),
                    other => format!("{:?}", other),
                };
                V::O(vec![("k", s("cast")), ("ck", s(ks)), ("op", self.operand(op)), ("ty", s(ty_s(*ty)))])
            }
            Rvalue::BinaryOp(op, ab) => {
                let (a, b) = &**ab;
                V::O(vec![
                    ("k", s("bin")),
                    ("op", s(format!("{:?}", op))),
                    ("a", self.operand(a)),
                    ("b", self.operand(b)),
                ])
            }
            Rvalue::UnaryOp(op, a) => {
                V::O(vec![("k", s("un")), ("op", s(format!("{:?}", op))), ("a", self.operand(a))])
            }
            Rvalue::Discriminant(p) => {
                let t = self.place_ty(p);
                self.cx.note_enum(t);
                V::O(vec![("k", s("discr")), ("pl", self.place(p)), ("ty", s(ty_s(t)))])
            }
            Rvalue::Aggregate(kind, ops) => {
                let mut o: Vec<(&'static str, V)> = vec![("k", s("agg"))];
                match &**kind {
                    AggregateKind::Array(t) => {
                        o.push(("ak", s("array")));
                        o.push(("ty", s(ty_s(*t))));
                    }
                    AggregateKind::Tuple => o.push(("ak", s("tuple"))),
                    AggregateKind::Adt(did, vi, args, _, active) => {
                        let adt = tcx.adt_def(*did);
                        o.push(("ak", s("adt")));
                        o.push(("adt", s(self.cx.def_name(*did))));
                        o.push(("vi", V::I(vi.as_u32() as i128)));
                        let var = adt.variant(*vi);
                        o.push(("variant", s(var.name.to_string())));
                        o.push(("fields", V::A(var.fields.iter().map(|f| s(f.name.to_string())).collect())));
                        o.push(("args", V::A(args.iter().map(|a| s(np!(a.to_string()))).collect())));
                        if let Some(a) = active {
                            o.push(("active", V::I(a.as_u32() as i128)));
                        }
                        if adt.is_enum() {
                            let t = tcx.type_of(*did).instantiate_identity().skip_norm_wip();
                            self.cx.note_enum(t);
                        }
                    }
                    AggregateKind::Closure(did, _) => {
                        o.push(("ak", s("closure")));
                        o.push(("closure", s(self.cx.def_id_s(*did))));
                    }
                    AggregateKind::Coroutine(did, _) | AggregateKind::CoroutineClosure(did, _) => {
                        o.push(("ak", s("coroutine")));
                        o.push(("closure", s(self.cx.def_id_s(*did))));
                    }
                    AggregateKind::RawPtr(t, _) => {
                        o.push(("ak", s("rawptr")));
                        o.push(("ty", s(ty_s(*t))));
                    }
                }
                o.push(("ops", V::A(ops.iter().map(|x| self.operand(x)).collect())));
                V::O(o)
            }
            Rvalue::CopyForDeref(p) => V::O(vec![("k", s("use")), ("op", V::O(vec![("cp", self.place(p))]))]),
            Rvalue::WrapUnsafeBinder(op, _) => V::O(vec![("k", s("use")), ("op", self.operand(op))]),
        }
    }

    fn src(&mut self, span: Span, o: &mut Vec<(&'static str, V)>, fn_file: &str) {
        let (file, line, mac) = self.cx.span_info(span);
        o.push(("ln", V::I(line)));
        if file != fn_file {
            o.push(("file", s(file)));
        }
        if let Some(m) = mac {
            o.push(("mac", s(m)));
        }
    }

    fn statement(&mut self, st: &Statement<'tcx>, fn_file: &str) -> Option<V> {
        match &st.kind {
            StatementKind::Assign(b) => {
                let (p, rv) = &**b;
                let mut o = vec![("k", s("=")), ("lhs", self.place(p)), ("rv", self.rvalue(rv))];
                self.src(st.source_info.span, &mut o, fn_file);
                Some(V::O(o))
            }
            StatementKind::SetDiscriminant { place, variant_index } => {
                let mut o = vec![
                    ("k", s("setdiscr")),
                    ("lhs", self.place(place)),
                    ("vi", V::I(variant_index.as_u32() as i128)),
                ];
                self.src(st.source_info.span, &mut o, fn_file);
                Some(V::O(o))
            }
            StatementKind::Intrinsic(i) => {
                let mut o = vec![("k", s("intrinsic")), ("text", s(format!("{:?}", i)))];
                self.src(st.source_info.span, &mut o, fn_file);
                Some(V::O(o))
            }
            StatementKind::StorageDead(l) => Some(V::O(vec![("k", s("dead")), ("l", V::I(l.as_u32() as i128))])),
            _ => None,
        }
    }

    fn terminator(&mut self, t: &Terminator<'tcx>, fn_file: &str) -> V {
        let span = t.source_info.span;
        let bb = |b: &BasicBlock| V::I(b.as_u32() as i128);
        let unwind = |u: &UnwindAction| match u {
            UnwindAction::Cleanup(b) => V::I(b.as_u32() as i128),
            _ => V::Null,
        };
        let mut o: Vec<(&'static str, V)> = vec![];
        match &t.kind {
            TerminatorKind::Goto { target } => {
                o.push(("k", s("goto")));
                o.push(("t", bb(target)));
            }
            TerminatorKind::SwitchInt { discr, targets } => {
                o.push(("k", s("switch")));
                o.push(("op", self.operand(discr)));
                let dty = discr.ty(&self.body.local_decls, self.cx.tcx);
                o.push(("ty", s(ty_s(dty))));
                let mut ts = vec![];
                for (val, target) in targets.iter() {
                    // sign-extend for signed types
                    let v: i128 = if dty.is_signed() {
                        let bits = match dty.kind() {
                            ty::Int(it) => it.bit_width().unwrap_or(64) as u32,
                            _ => 128,
                        };
                        if bits < 128 {
                            let shift = 128 - bits;
                            ((val as i128) << shift) >> shift
                        } else {
                            val as i128
                        }
                    } else {
                        val as i128
                    };
                    ts.push(V::A(vec![V::I(v), bb(&target)]));
                }
                o.push(("ts", V::A(ts)));
                o.push(("else", bb(&targets.otherwise())));
            }
            TerminatorKind::UnwindResume => o.push(("k", s("resume"))),
            TerminatorKind::UnwindTerminate(_) => o.push(("k", s("abort"))),
            TerminatorKind::Return => o.push(("k", s("return"))),
            TerminatorKind::Unreachable => o.push(("k", s("unreachable"))),
            TerminatorKind::Drop { place, target, unwind: u, .. } => {
                o.push(("k", s("drop")));
                o.push(("pl", self.place(place)));
                let t = self.place_ty(place);
                o.push(("ty", s(ty_s(t))));
                o.push(("t", bb(target)));
                o.push(("u", unwind(u)));
            }
            TerminatorKind::Call { func, args, destination, target, unwind: u, fn_span, .. } => {
                o.push(("k", s("call")));
                match func {
                    Operand::Constant(c) => {
                        if let ty::FnDef(def_id, ga) = c.const_.ty().kind() {
                            let f = self.fn_ref(*def_id, ga, true);
                            o.push(("callee", V::O(f)));
                        } else {
                            o.push(("ptr", self.constant(c)));
                        }
                    }
                    other => {
                        let pty = other.ty(&self.body.local_decls, self.cx.tcx);
                        o.push(("ptr", self.operand(other)));
                        o.push(("ptr_ty", s(ty_s(pty))));
                    }
                }
                o.push(("args", V::A(args.iter().map(|a| self.operand(&a.node)).collect())));
                o.push(("dest", self.place(destination)));
                o.push(("t", target.as_ref().map(|b| bb(b)).unwrap_or(V::Null)));
                o.push(("u", unwind(u)));
                let chain = self.cx.macro_chain(span);
                if !chain.is_empty() {
                    o.push(("macs", V::A(chain.into_iter().map(s).collect())));
                }
                o.push(("snip", s(self.cx.snippet(span))));
                let _ = fn_span;
            }
            TerminatorKind::TailCall { func, args, .. } => {
                o.push(("k", s("tailcall")));
                o.push(("ptr", self.operand(func)));
                o.push(("args", V::A(args.iter().map(|a| self.operand(&a.node)).collect())));
            }
            TerminatorKind::Assert { cond, expected, msg, target, unwind: u } => {
                o.push(("k", s("assert")));
                o.push(("cond", self.operand(cond)));
                o.push(("exp", V::B(*expected)));
                let (kind, ops): (String, Vec<V>) = match &**msg {
                    AssertKind::BoundsCheck { len, index } => {
                        ("BoundsCheck".into(), vec![self.operand(len), self.operand(index)])
                    }
                    AssertKind::Overflow(op, a, b) => {
                        (format!("Overflow:{:?}", op), vec![self.operand(a), self.operand(b)])
                    }
                    AssertKind::OverflowNeg(a) => ("OverflowNeg".into(), vec![self.operand(a)]),
                    AssertKind::DivisionByZero(a) => ("DivisionByZero".into(), vec![self.operand(a)]),
                    AssertKind::RemainderByZero(a) => ("RemainderByZero".into(), vec![self.operand(a)]),
                    AssertKind::MisalignedPointerDereference { .. } => ("Misaligned".into(), vec![]),
                    AssertKind::NullPointerDereference => ("NullDeref".into(), vec![]),
                    AssertKind::InvalidEnumConstruction(_) => ("InvalidEnum".into(), vec![]),
                    _ => ("Other".into(), vec![]),
                };
                o.push(("ak", s(kind)));
                o.push(("ops", V::A(ops)));
                o.push(("t", bb(target)));
                o.push(("u", unwind(u)));
                o.push(("snip", s(self.cx.snippet(span))));
            }
            TerminatorKind::Yield { .. } => o.push(("k", s("yield"))),
            TerminatorKind::CoroutineDrop => o.push(("k", s("cordrop"))),
            TerminatorKind::FalseEdge { real_target, .. } => {
                o.push(("k", s("goto")));
                o.push(("t", bb(real_target)));
            }
            TerminatorKind::FalseUnwind { real_target, .. } => {
                o.push(("k", s("goto")));
                o.push(("t", bb(real_target)));
            }
            TerminatorKind::InlineAsm { .. } => o.push(("k", s("asm"))),
        }
        self.src(span, &mut o, fn_file);
        V::O(o)
    }
}

fn adts_in_ty<'tcx>(cx: &Cx<'tcx>, ty: Ty<'tcx>, out: &mut Vec<String>) {
    for arg in ty.walk() {
        if let Some(t) = arg.as_type() {
            if let ty::Adt(adt, _) = t.kind() {
                let n = cx.def_name(adt.did());
                if !out.contains(&n) {
                    out.push(n);
                }
            }
        }
    }
}

fn dump_fn<'tcx>(cx: &mut Cx<'tcx>, did: DefId) -> V {
    let tcx = cx.tcx;
    let kind = tcx.def_kind(did);
    let body = tcx.optimized_mir(did);
    let env = TypingEnv::post_analysis(tcx, did);
    let (file, line, mac) = cx.span_info(tcx.def_span(did));
    let sm = tcx.sess.source_map();
    let full_span = body.span;
    let (_, line_lo, _) = cx.span_info(full_span.shrink_to_lo());
    let line_hi = {
        let mut sp = full_span;
        if sp.from_expansion() {
            for ed in sp.macro_backtrace() {
                sp = ed.call_site;
            }
        }
        sm.lookup_char_pos(sp.hi()).line as i128
    };
    let mut o: Vec<(&'static str, V)> = vec![
        ("id", s(cx.def_id_s(did))),
        ("name", s(cx.def_name(did))),
        ("kind", s(format!("{:?}", kind))),
        ("file", s(file.clone())),
        ("line", V::I(line)),
        ("line_lo", V::I(line_lo)),
        ("line_hi", V::I(line_hi)),
    ];
    if let Some(m) = mac {
        o.push(("mac", s(m)));
    }
    if matches!(kind, DefKind::Fn | DefKind::AssocFn) {
        o.push(("vis", s(format!("{:?}", tcx.visibility(did)))));
        let sig = tcx.fn_sig(did).instantiate_identity().skip_norm_wip();
        o.push(("sig", s(np!(format!("{}", sig)))));
        o.push(("unsafe", V::B(!sig.safety().is_safe())));
    }
    if matches!(kind, DefKind::Closure) {
        o.push(("parent", s(cx.def_id_s(tcx.typeck_root_def_id(did)))));
    }
    if let Some(impl_did) = tcx.impl_of_assoc(did) {
        let self_ty = tcx.type_of(impl_did).instantiate_identity().skip_norm_wip();
        let mut io: Vec<(&'static str, V)> = vec![("self_ty", s(ty_s(self_ty))), ("impl_id", s(cx.def_id_s(impl_did)))];
        if let ty::Adt(adt, _) = self_ty.kind() {
            io.push(("self_adt", s(cx.def_name(adt.did()))));
        }
        if let Some(tr) = tcx.impl_opt_trait_ref(impl_did) {
            let tr = tr.instantiate_identity().skip_norm_wip();
            io.push(("trait", s(cx.def_name(tr.def_id))));
            io.push(("trait_ref", s(np!(tr.to_string()))));
        }
        if let Some(ti) = tcx.trait_item_of(did) {
            io.push(("trait_item", s(cx.def_id_s(ti))));
        }
        o.push(("impl", V::O(io)));
    }
    if let Some(tr) = tcx.trait_of_assoc(did) {
        // default method body in a trait
        o.push(("in_trait", s(cx.def_name(tr))));
    }
    o.push(("argc", V::I(body.arg_count as i128)));
    // locals
    let mut names: BTreeMap<u32, String> = BTreeMap::new();
    let mut upvars: Vec<V> = vec![];
    for vdi in body.var_debug_info.iter() {
        if let VarDebugInfoContents::Place(p) = &vdi.value {
            if p.projection.is_empty() {
                names.entry(p.local.as_u32()).or_insert(vdi.name.to_string());
            } else {
                upvars.push(V::A(vec![s(vdi.name.to_string()), s(format!("{:?}", p))]));
            }
        }
    }
    let mut locals = vec![];
    for (l, decl) in body.local_decls.iter_enumerated() {
        let n = names.get(&l.as_u32()).cloned();
        locals.push(V::A(vec![s(ty_s(decl.ty)), n.map(s).unwrap_or(V::Null)]));
    }
    o.push(("locals", V::A(locals)));
    if !upvars.is_empty() {
        o.push(("upvars", V::A(upvars)));
    }
    let mut blocks = vec![];
    {
        let mut bcx = BodyCx { cx, body, env };
        for (_bb, data) in body.basic_blocks.iter_enumerated() {
            let mut stmts = vec![];
            for st in data.statements.iter() {
                if let Some(v) = bcx.statement(st, &file) {
                    stmts.push(v);
                }
            }
            let term = bcx.terminator(data.terminator(), &file);
            let mut bo = vec![("s", V::A(stmts)), ("t", term)];
            if data.is_cleanup {
                bo.push(("cleanup", V::B(true)));
            }
            blocks.push(V::O(bo));
        }
    }
    o.push(("blocks", V::A(blocks)));
    // promoted constants (`&0`, `&["a", "b"]`, ...) as tiny bodies
    if matches!(kind, DefKind::Fn | DefKind::AssocFn | DefKind::Closure) {
        let promoted = tcx.promoted_mir(did);
        if !promoted.is_empty() {
            let mut ps = vec![];
            for pbody in promoted.iter() {
                let mut pblocks = vec![];
                let mut plocals = vec![];
                for (_l, decl) in pbody.local_decls.iter_enumerated() {
                    plocals.push(V::A(vec![s(ty_s(decl.ty)), V::Null]));
                }
                {
                    let mut bcx = BodyCx { cx, body: pbody, env };
                    for (_bb, data) in pbody.basic_blocks.iter_enumerated() {
                        let mut stmts = vec![];
                        for st in data.statements.iter() {
                            if let Some(v) = bcx.statement(st, &file) {
                                stmts.push(v);
                            }
                        }
                        let term = bcx.terminator(data.terminator(), &file);
                        pblocks.push(V::O(vec![("s", V::A(stmts)), ("t", term)]));
                    }
                }
                ps.push(V::O(vec![("locals", V::A(plocals)), ("blocks", V::A(pblocks))]));
            }
            o.push(("promoted", V::A(ps)));
        }
    }
    V::O(o)
}

fn dump_adt<'tcx>(cx: &mut Cx<'tcx>, did: DefId) -> V {
    let tcx = cx.tcx;
    let adt = tcx.adt_def(did);
    let (file, line, mac) = cx.span_info(tcx.def_span(did));
    let mut o: Vec<(&'static str, V)> = vec![
        ("name", s(cx.def_name(did))),
        ("id", s(cx.def_id_s(did))),
        ("kind", s(if adt.is_enum() { "enum" } else if adt.is_union() { "union" } else { "struct" })),
        ("file", s(file)),
        ("line", V::I(line)),
        ("vis", s(format!("{:?}", tcx.visibility(did)))),
        ("transparent", V::B(adt.repr().transparent())),
        ("repr", s(format!("{:?}", adt.repr()))),
    ];
    if let Some(m) = mac {
        o.push(("mac", s(m)));
    }
    let generics = tcx.generics_of(did);
    o.push((
        "generics",
        V::A(generics.own_params.iter().map(|p| s(p.name.to_string())).collect()),
    ));
    let mut variants = vec![];
    let discrs: Vec<(rustc_abi::VariantIdx, i128)> = if adt.is_enum() {
        adt.discriminants(tcx).map(|(vi, d)| (vi, discr_val(d))).collect()
    } else {
        vec![]
    };
    for (vi, var) in adt.variants().iter_enumerated() {
        let mut fields = vec![];
        for f in var.fields.iter() {
            let fty = tcx.type_of(f.did).instantiate_identity().skip_norm_wip();
            let mut mentioned = vec![];
            adts_in_ty(cx, fty, &mut mentioned);
            fields.push(V::O(vec![
                ("name", s(f.name.to_string())),
                ("ty", s(ty_s(fty))),
                ("vis", s(format!("{:?}", f.vis))),
                ("adts", V::A(mentioned.into_iter().map(s).collect())),
            ]));
        }
        let d = discrs.iter().find(|(v, _)| *v == vi).map(|(_, d)| *d);
        variants.push(V::O(vec![
            ("name", s(var.name.to_string())),
            ("vi", V::I(vi.as_u32() as i128)),
            ("discr", d.map(V::I).unwrap_or(V::Null)),
            ("ctor", s(format!("{:?}", var.ctor_kind()))),
            ("fields", V::A(fields)),
        ]));
    }
    o.push(("variants", V::A(variants)));
    V::O(o)
}

struct UnsafeVisitor<'tcx> {
    tcx: TyCtxt<'tcx>,
    found: Vec<Span>,
}

impl<'tcx> rustc_hir::intravisit::Visitor<'tcx> for UnsafeVisitor<'tcx> {
    type NestedFilter = rustc_middle::hir::nested_filter::OnlyBodies;
    fn maybe_tcx(&mut self) -> Self::MaybeTyCtxt {
        self.tcx
    }
    fn visit_block(&mut self, b: &'tcx rustc_hir::Block<'tcx>) {
        if let rustc_hir::BlockCheckMode::UnsafeBlock(src) = b.rules {
            if matches!(src, rustc_hir::UnsafeSource::UserProvided) {
                self.found.push(b.span);
            }
        }
        rustc_hir::intravisit::walk_block(self, b);
    }
}

fn dump_crate<'tcx>(tcx: TyCtxt<'tcx>, out_dir: &str, argv: &[String]) {
    let mut cx = Cx { tcx, ext_enums: BTreeMap::new() };
    let crate_name = tcx.crate_name(LOCAL_CRATE).to_string();
    CRATE.with(|c| *c.borrow_mut() = crate_name.clone());
    let crate_types: Vec<String> = tcx.crate_types().iter().map(|t| format!("{:?}", t)).collect();
    IS_BIN.with(|b| *b.borrow_mut() = crate_types.iter().any(|t| t == "Executable"));

    let mut fns = vec![];
    let mut n_bodies = 0i128;
    let mut unsafe_blocks = vec![];
    for ldid in tcx.hir_body_owners() {
        let did = ldid.to_def_id();
        let kind = tcx.def_kind(did);
        // unsafe blocks (HIR)
        {
            let mut uv = UnsafeVisitor { tcx, found: vec![] };
            if !matches!(kind, DefKind::Closure) {
                if let Some(body) = tcx.hir_maybe_body_owned_by(ldid) {
                    rustc_hir::intravisit::Visitor::visit_body(&mut uv, body);
                }
            }
            for sp in uv.found {
                let (file, line, mac) = cx.span_info(sp);
                unsafe_blocks.push(V::O(vec![
                    ("fn", s(cx.def_id_s(did))),
                    ("name", s(cx.def_name(did))),
                    ("file", s(file)),
                    ("line", V::I(line)),
                    ("mac", mac.map(s).unwrap_or(V::Null)),
                    ("snip", s(cx.snippet(sp))),
                ]));
            }
        }
        match kind {
            DefKind::Fn | DefKind::AssocFn | DefKind::Closure => {}
            _ => continue,
        }
        if tcx.is_constructor(did) {
            continue;
        }
        fns.push(dump_fn(&mut cx, did));
        n_bodies += 1;
    }

    let mut adts = vec![];
    let mut impls = vec![];
    let mut statics = vec![];
    let mut traits = vec![];
    for ldid in tcx.hir_crate_items(()).definitions() {
        let did = ldid.to_def_id();
        match tcx.def_kind(did) {
            DefKind::Struct | DefKind::Enum | DefKind::Union => adts.push(dump_adt(&mut cx, did)),
            DefKind::Impl { of_trait } => {
                let self_ty = tcx.type_of(did).instantiate_identity().skip_norm_wip();
                let (file, line, mac) = cx.span_info(tcx.def_span(did));
                let mut o: Vec<(&'static str, V)> = vec![
                    ("id", s(cx.def_id_s(did))),
                    ("self_ty", s(ty_s(self_ty))),
                    ("file", s(file)),
                    ("line", V::I(line)),
                    ("mac", mac.map(s).unwrap_or(V::Null)),
                ];
                if let ty::Adt(adt, _) = self_ty.kind() {
                    o.push(("self_adt", s(cx.def_name(adt.did()))));
                }
                if of_trait {
                    let tr = tcx.impl_trait_ref(did).instantiate_identity().skip_norm_wip();
                    o.push(("trait", s(cx.def_name(tr.def_id))));
                    o.push(("trait_ref", s(np!(tr.to_string()))));
                }
                let mut items = vec![];
                for item in tcx.associated_items(did).in_definition_order() {
                    items.push(V::O(vec![
                        ("name", s(item.name().to_string())),
                        ("id", s(cx.def_id_s(item.def_id))),
                        ("kind", s(format!("{:?}", tcx.def_kind(item.def_id)))),
                        (
                            "trait_item",
                            item.trait_item_def_id().map(|d| s(cx.def_id_s(d))).unwrap_or(V::Null),
                        ),
                    ]));
                }
                o.push(("items", V::A(items)));
                impls.push(V::O(o));
            }
            DefKind::Static { .. } => {
                let t = tcx.type_of(did).instantiate_identity().skip_norm_wip();
                let (file, line, _) = cx.span_info(tcx.def_span(did));
                statics.push(V::O(vec![
                    ("name", s(cx.def_name(did))),
                    ("ty", s(ty_s(t))),
                    ("file", s(file)),
                    ("line", V::I(line)),
                    ("vis", s(format!("{:?}", tcx.visibility(did)))),
                ]));
            }
            DefKind::Trait => {
                let mut items = vec![];
                for item in tcx.associated_items(did).in_definition_order() {
                    let has_default = item.defaultness(tcx).has_value();
                    items.push(V::O(vec![
                        ("name", s(item.name().to_string())),
                        ("id", s(cx.def_id_s(item.def_id))),
                        ("kind", s(format!("{:?}", tcx.def_kind(item.def_id)))),
                        ("default", V::B(has_default)),
                    ]));
                }
                traits.push(V::O(vec![("name", s(cx.def_name(did))), ("id", s(cx.def_id_s(did))), ("items", V::A(items))]));
            }
            _ => {}
        }
    }

    let ext_enums: Vec<V> = std::mem::take(&mut cx.ext_enums)
        .into_iter()
        .map(|(k, v)| V::A(vec![s(k), v]))
        .collect();

    let is_test = argv.iter().any(|a| a == "--test");
    let root = V::O(vec![
        ("schema", V::I(1)),
        ("crate", s(crate_name.clone())),
        ("crate_types", V::A(crate_types.iter().cloned().map(s).collect())),
        ("is_test", V::B(is_test)),
        ("rustc", s(option_env!("CFG_VERSION").unwrap_or("nightly").to_string())),
        (
            "features",
            V::A(
                argv.iter()
                    .zip(argv.iter().skip(1))
                    .filter(|(a, _)| *a == "--cfg")
                    .map(|(_, b)| s(b.clone()))
                    .collect(),
            ),
        ),
        ("n_bodies", V::I(n_bodies)),
        ("fns", V::A(fns)),
        ("adts", V::A(adts)),
        ("impls", V::A(impls)),
        ("traits", V::A(traits)),
        ("statics", V::A(statics)),
        ("unsafe_blocks", V::A(unsafe_blocks)),
        ("enums", V::A(ext_enums)),
    ]);
    let mut out = String::with_capacity(1 << 20);
    root.write(&mut out);
    let kind = if crate_types.iter().any(|t| t == "Executable") { "bin" } else { "lib" };
    let path = format!("{}/{}.{}.json", out_dir, crate_name, kind);
    let tmp = format!("{}.tmp.{}", path, std::process::id());
    std::fs::write(&tmp, out).expect("write facts");
    std::fs::rename(&tmp, &path).expect("rename facts");
}

struct Dump {
    out_dir: String,
    argv: Vec<String>,
}

impl rustc_driver::Callbacks for Dump {
    fn after_analysis<'tcx>(
        &mut self,
        _compiler: &rustc_interface::interface::Compiler,
        tcx: TyCtxt<'tcx>,
    ) -> rustc_driver::Compilation {
        dump_crate(tcx, &self.out_dir, &self.argv);
        rustc_driver::Compilation::Continue
    }
}

struct Plain;
impl rustc_driver::Callbacks for Plain {}

fn main() {
    let mut args: Vec<String> = std::env::args().collect();
    // As RUSTC_WORKSPACE_WRAPPER: argv[1] is the path of the real rustc.
    if args.len() > 1 && (args[1].ends_with("rustc") || args[1].contains("/rustc")) {
        args.remove(1);
    }
    let out_dir = std::env::var("TXV_FACTS_DIR").ok();
    let crate_name = args
        .iter()
        .zip(args.iter().skip(1))
        .find(|(a, _)| *a == "--crate-name")
        .map(|(_, b)| b.clone());
    let is_test = args.iter().any(|a| a == "--test");
    let skip = out_dir.is_none()
        || crate_name.is_none()
        || is_test
        || crate_name.as_deref() == Some("build_script_build")
        || crate_name.as_deref() == Some("___");
    if skip {
        rustc_driver::run_compiler(&args, &mut Plain);
    } else {
        let mut cb = Dump { out_dir: out_dir.unwrap(), argv: args.clone() };
        rustc_driver::run_compiler(&args, &mut cb);
    }
}
