#!/usr/bin/env python3
"""List (or prune) audited entries that no check uses on the current tree.

An entry of tables/pps_audited.json that no site matches any more is not harmless: the rename pass of
txv/sitematch.py could hand it to a *different* site of the same kind in the same function family (that is how the
reverted `cases_left_to_skip -= 1` was masked after the depth counters became 64-bit).  Run on the unchanged tree only:
    python3 tools_stale.py          # exit 1 if there are stale entries
    python3 tools_stale.py --prune  # remove them from the table
selftest/run.py calls the first form before anything else.
"""
import json, os, subprocess, sys, tempfile
HERE = os.path.dirname(os.path.abspath(__file__))
PROPS = ["C06", "C09", "C10", "C16", "C18"]

def used_entries():
    used = set()
    for tier in ("quick", "thorough"):
        for p in PROPS:
            with tempfile.NamedTemporaryFile(suffix=".jsonl", delete=False) as fh:
                path = fh.name
            env = dict(os.environ, TXV_DUMP_USED=path)
            r = subprocess.run([os.path.join(HERE, "check"), p, "--tier", tier], env=env, stdout=subprocess.PIPE, stderr=subprocess.STDOUT, text=True)
            if r.returncode not in (0,):
                sys.stderr.write("check %s (%s) exited %d on the tree being pruned against; refusing\n" % (p, tier, r.returncode))
                sys.exit(2)
            for line in open(path):
                d = json.loads(line)
                if d.get("entry"):
                    used.add(d["entry"])
            os.unlink(path)
    return used

def main():
    table_path = os.path.join(HERE, "tables", "pps_audited.json")
    table = json.load(open(table_path))
    used = used_entries()
    stale = sorted(k for k in table if k not in used)
    for k in stale:
        print("stale:", k, "|", table[k].get("snip", "")[:60])
    print("%d entries, %d used, %d stale" % (len(table), len(table) - len(stale), len(stale)))
    if "--prune" in sys.argv and stale:
        for k in stale:
            del table[k]
        json.dump(table, open(table_path, "w"), indent=1, sort_keys=True)
        open(table_path, "a").write("\n")
        print("pruned")
        return 0
    return 1 if stale else 0

if __name__ == "__main__":
    sys.exit(main())
