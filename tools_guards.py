#!/usr/bin/env python3
"""Record, for every audited entry that is used on the unchanged tree, the guard facts under which its argument was made
(txv/guardfacts.py) as `guards` in tables/pps_audited.json.  Run on the unchanged tree after writing or revising entries:
    python3 tools_guards.py            # show what would change
    python3 tools_guards.py --write    # update the table
Existing `guards` are only replaced with --refresh (a guard that has been recorded is a commitment)."""
import json, os, sys
HERE = os.path.dirname(os.path.abspath(__file__))
sys.path.insert(0, HERE)
from txv import extract, facts  # noqa: E402
from txv.pps import enumerate_sites, Discharger  # noqa: E402
from txv.guardfacts import guard_facts  # noqa: E402
from txv.facts import strip_generics  # noqa: E402


def main():
    fd, info = extract.ensure_facts(verbose=False)
    F = facts.Facts(fd)
    tp = os.path.join(HERE, "tables", "pps_audited.json")
    tab = json.load(open(tp))
    fns = {}
    for k in tab:
        fns.setdefault(k.split("|")[0], []).append(k)
    n = ch = 0
    for fn in F.fns.values():
        if strip_generics(fn.name) not in fns:
            continue
        D = None
        for s in enumerate_sites(fn, ("K1", "K2", "K3", "K4")):
            e = tab.get(s.key)
            if e is None or (e.get("snip") and e["snip"][:24] != s.snip[:24]):
                continue
            if e.get("guards_note"):
                continue   # guards of this entry were edited by hand, with the reason in `guards_note`
            D = D or Discharger(F, fn)
            g = guard_facts(D, fn, s.bb)
            # keep the guards that are about a value the site's own expression (or its expect message) mentions: a comparison that merely
            # happens to dominate the site is not part of the argument and would only make the entry fragile
            import re
            words = set(re.findall(r"[A-Za-z_][A-Za-z_0-9]*", s.snip or ""))
            g = {nm: iv for nm, iv in g.items() if re.findall(r"[A-Za-z_][A-Za-z_0-9]*", nm.replace("len(", "").replace("val(", ""))[0] in words}
            if not g:
                if "guards" in e and "--refresh" in sys.argv:
                    del e["guards"]
                    ch += 1
                continue
            n += 1
            if "guards" in e and "--refresh" not in sys.argv:
                continue
            if e.get("guards") != g:
                ch += 1
                print("%s\n    guards: %s" % (s.key, g))
                e["guards"] = g
    print("%d entries with guard facts, %d new or changed" % (n, ch))
    if "--write" in sys.argv and ch:
        json.dump(tab, open(tp, "w"), indent=1, sort_keys=True)
        open(tp, "a").write("\n")
        print("written")


if __name__ == "__main__":
    main()
