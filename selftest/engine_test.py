#!/usr/bin/env python3
"""Engine self-test: runs the fact extractor on selftest/engine (a scratch crate of discharge-rule cases) and checks, per
function, that the potential-panic sites of `ok_*` functions are all discharged automatically and that every `bad_*`
function keeps at least one undischarged site (the rule must not over-approximate). No table is consulted."""
import json, os, subprocess, sys, shutil
HERE = os.path.dirname(os.path.abspath(__file__))
VERIF = os.path.dirname(HERE)
sys.path.insert(0, VERIF)
from txv import extract  # noqa: E402
from txv.facts import Facts, strip_generics  # noqa: E402
from txv.pps import enumerate_sites, Discharger, discharge_const  # noqa: E402

def main():
    crate = os.path.join(HERE, "engine")
    out = os.path.join(VERIF, ".cache", "engine")
    shutil.rmtree(out, ignore_errors=True)
    os.makedirs(os.path.join(out, "facts"))
    if not os.path.exists(extract.DRIVER):
        extract.build_driver()
    env = dict(os.environ)
    env.update({"LD_LIBRARY_PATH": os.path.join(extract.sysroot(), "lib"), "RUSTFLAGS": "-Zmir-opt-level=0 -Awarnings", "CARGO_NET_OFFLINE": "true",
                "TXV_FACTS_DIR": os.path.join(out, "facts"), "RUSTC_WORKSPACE_WRAPPER": extract.DRIVER, "CARGO_TARGET_DIR": os.path.join(out, "target"),
                "CARGO_INCREMENTAL": "0"})
    r = subprocess.run(["cargo", "+nightly", "check", "--offline"], cwd=crate, env=env, stdout=subprocess.PIPE, stderr=subprocess.STDOUT, text=True)
    if r.returncode != 0:
        print(r.stdout[-3000:]); return 2
    F = Facts(os.path.join(out, "facts"))
    bad = 0
    n = 0
    for fn in sorted(F.fns.values(), key=lambda f: f.name):
        short = strip_generics(fn.name).split("::")[-1]
        if not (short.startswith("ok_") or short.startswith("bad_")):
            continue
        n += 1
        D = Discharger(F, fn)
        open_sites = []
        for s in enumerate_sites(fn, ("K1", "K2", "K3", "K4")):
            how = discharge_const(s) or D.cond_rule(s) or D.folded_const_rule(s) or D.split_checked_rule(s) or D.type_rule(s) or D.guard_rule(s) \
                or D.widened_rule(s) or D.size_rule(s) or D.slice_copy_rule(s) or D.counter_rule(s) or D.dead_arm_rule(s) or D.str_idiom_rule(s)
            if not how:
                open_sites.append("%s %s" % (s.kind, s.what))
        if short.startswith("ok_") and open_sites:
            print("FAIL %s: not discharged: %s" % (short, open_sites)); bad += 1
        elif short.startswith("bad_") and not open_sites:
            print("FAIL %s: every site was discharged (unsound rule)" % short); bad += 1
        else:
            print("ok   %s%s" % (short, (" (open: %s)" % open_sites) if open_sites else ""))
    print("engine selftest: %d cases, %d failures" % (n, bad))
    return 1 if bad or n < 57 else 0

sys.exit(main())
