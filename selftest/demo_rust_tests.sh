#!/bin/sh
# usage: demo_rust_tests.sh <PROP> <i> <crate-dir> <pkg> <testfile.rs>
# copies OUT/<i>/<testfile.rs> into <crate-dir>/tests/ in the agent's worktree and runs it with/without the patch
P=$1; I=$2; CD=$3; PKG=$4; TF=$5; W=/tmp/wt/$P; cd $W || exit 2
export CARGO_NET_OFFLINE=true CARGO_TARGET_DIR=$W/target
N=$(basename $TF .rs)
git checkout -q -- .; mkdir -p $CD/tests; cp OUT/$I/$TF $CD/tests/
cargo test --offline -p $PKG --test $N 2>&1 | grep -E "^test result" | head -1 > OUT/$I/demo_head.out; echo "HEAD: $(cat OUT/$I/demo_head.out)"
git apply OUT/$I/patch.diff
cargo test --offline -p $PKG --test $N 2>&1 | grep -E "^test result" | head -1 > OUT/$I/demo_patched.out; echo "PATCHED: $(cat OUT/$I/demo_patched.out)"
git checkout -q -- .; rm -f $CD/tests/$TF; rmdir $CD/tests 2>/dev/null
