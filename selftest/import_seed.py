#!/usr/bin/env python3
"""import_seed.py <PROP> <i> <caught_by> <needs...>  — copies a confirmed seeded change from the sub-agent's scratch
worktree into /verif/seeded/<PROP>-<i>/ with meta.json"""
import json, os, shutil, sys, glob
P, I, caught = sys.argv[1], sys.argv[2], sys.argv[3]
rest = sys.argv[4:]
NEW = I
if rest and rest[0].startswith("--as="):
    NEW = rest[0][5:]
    rest = rest[1:]
EXPECT = "violation"
if rest and rest[0].startswith("--expect="):
    EXPECT = rest[0][9:]
    rest = rest[1:]
needs = " ".join(rest)
src = "/tmp/wt/%s/OUT/%s" % (P, I)
dst = "/verif/seeded/%s-%s" % (P, NEW)
os.makedirs(dst, exist_ok=True)
for f in glob.glob(src + "/*"):
    b = os.path.basename(f)
    if b.endswith(".log") or os.path.getsize(f) > 200000:
        continue
    shutil.copy(f, os.path.join(dst, b))
conf = open(os.path.join(src, "confirm.txt")).read().split() if os.path.exists(os.path.join(src, "confirm.txt")) else []
meta = {
    "id": "%s-%s" % (P, NEW), "property": P, "detect": {"check": P, "expect": EXPECT}, "origin": "fresh sub-agent given only the property text and a scratch worktree",
    "needs_to_manifest": needs,
    "confirmed": {"cargo_check_workspace": "check rc=0" in " ".join(conf), "cargo_test_workspace": " ".join(conf),
                  "demonstration": "run with and without the patch in the scratch worktree; outputs differ (see demo_head.out / demo_patched.out or notes.md)"},
    "ran": ["selftest/confirm_seed.sh %s %s" % (P, I), "selftest/demo_tex.sh / the Rust demo in notes.md", "selftest/try_seed.sh seeded/%s-%s/patch.diff %s" % (P, NEW, P)],
    "caught_by": caught,
}
json.dump(meta, open(os.path.join(dst, "meta.json"), "w"), indent=1)
print(dst, meta["confirmed"]["cargo_test_workspace"])
