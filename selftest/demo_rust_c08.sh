#!/bin/sh
# usage: demo_rust_c08.sh <i> — appends OUT/<i>/demo_test.rs to texlang-stdlib's lib.rs and runs the c08_demo tests with/without the patch
I=$1; W=/tmp/wt/C08; cd $W || exit 2
export CARGO_NET_OFFLINE=true CARGO_TARGET_DIR=$W/target
git checkout -q -- .
cat OUT/$I/demo_test.rs >> crates/texlang-stdlib/src/lib.rs
cargo test --offline -p texlang-stdlib --features serde c08_demo_$I 2>&1 | grep -E "^test result|panicked" | head -3 > OUT/$I/demo_head.out; echo "HEAD: $(cat OUT/$I/demo_head.out | head -1)"
git apply OUT/$I/patch.diff
cargo test --offline -p texlang-stdlib --features serde c08_demo_$I 2>&1 | grep -E "^test result" | head -3 > OUT/$I/demo_patched.out; echo "PATCHED: $(cat OUT/$I/demo_patched.out | head -1)"
git checkout -q -- .
