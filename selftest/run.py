#!/usr/bin/env python3
"""Self-test of the checkers, both ways.

For every selftest/patches/<name>.diff with an entry in selftest/expect.json:
apply it to /repo (git apply), run the named check, undo it (git checkout),
and compare with the expectation:
  {"check": "C01", "expect": "violation", "key_contains": "..."}   must exit 1 and name the instance
  {"check": "C01", "expect": "silent"}                              behaviour-preserving edit: must exit 0
  {"check": "C10", "expect": "new-site-only"}                       behaviour-preserving edit with new code that needs a fresh argument:
                                                                    exit 1, and every report is of the "unverified site" kind
Usage: selftest/run.py [name-substring ...]      (SELFTEST_ONLY_CHECK=C08,C10 restricts the run to those checks)
"""
import json, os, subprocess, sys
HERE = os.path.dirname(os.path.abspath(__file__))
VERIF = os.path.dirname(HERE)
REPO = "/repo"

def sh(cmd, **kw):
    return subprocess.run(cmd, shell=True, stdout=subprocess.PIPE, stderr=subprocess.STDOUT, text=True, **kw)

def main():
    expect = json.load(open(os.path.join(HERE, "expect.json")))
    filt = sys.argv[1:]
    st = sh("git -C %s status --porcelain" % REPO).stdout.strip()
    if st:
        print("refusing: /repo has local changes"); return 2
    bad = 0
    if not filt:
        # an audited entry that nothing uses can mask a changed site through the rename pass of the matching (DESIGN 11.2)
        r = sh("python3 tools_stale.py", cwd=VERIF)
        print("%s no stale audited entries on the unchanged tree: %s" % ("ok  " if r.returncode == 0 else "FAIL", r.stdout.strip().splitlines()[-1]))
        if r.returncode != 0:
            bad += 1
            print("\n".join("      " + l for l in r.stdout.splitlines()[:12]))
    for name, exps in sorted(expect.items()):
        if filt and not any(f in name for f in filt):
            continue
        patch = os.path.join(HERE, "patches", name + ".diff")
        r = sh("git -C %s apply %s" % (REPO, patch))
        if r.returncode != 0:
            print("FAIL %s: patch does not apply: %s" % (name, r.stdout[:300])); bad += 1; continue
        try:
            for exp in (exps if isinstance(exps, list) else [exps]):
                if os.environ.get("SELFTEST_ONLY_CHECK") and exp["check"] not in os.environ["SELFTEST_ONLY_CHECK"].split(","):
                    continue
                r = sh("./check %s --tier %s" % (exp["check"], exp.get("tier", "quick")), cwd=VERIF)
                out = r.stdout
                if exp["expect"] == "violation":
                    ok = r.returncode == 1 and "VIOLATION property=%s" % exp["check"] in out and exp.get("key_contains", "") in out
                elif exp["expect"] == "silent":
                    ok = r.returncode == 0 and "VIOLATION" not in out
                elif exp["expect"] == "new-site-only":
                    # a behaviour-preserving edit that introduces a potential-panic site / narrowing cast which no automatic rule can
                    # decide: the only acceptable report is "unverified site" (see DESIGN 11.2), nothing else may fire
                    lines = [l for l in out.splitlines() if l.strip().startswith("rule=")]
                    ok = r.returncode == 1 and lines and all(("not discharged by any guard, type or audited argument" in l) or (" narrows " in l and "silently" in l) for l in lines)
                else:
                    ok = False
                print("%s %s [%s expects %s] rc=%d" % ("ok  " if ok else "FAIL", name, exp["check"], exp["expect"], r.returncode))
                if not ok:
                    bad += 1
                    print("\n".join("      " + l for l in out.splitlines()[-8:]))
        finally:
            sh("git -C %s checkout -- ." % REPO)
            sh("git -C %s clean -fdq -- crates" % REPO)
    # confirmed seeded changes from sub-agents
    import glob
    for d in sorted(glob.glob(os.path.join(VERIF, "seeded", "*"))):
        name = "seed:" + os.path.basename(d)
        if filt and not any(f in name for f in filt):
            continue
        meta = json.load(open(os.path.join(d, "meta.json")))
        det = meta.get("detect")
        if not det:
            continue
        if os.environ.get("SELFTEST_ONLY_CHECK") and det["check"] not in os.environ["SELFTEST_ONLY_CHECK"].split(","):
            continue
        r = sh("git -C %s apply %s" % (REPO, os.path.join(d, "patch.diff")))
        if r.returncode != 0:
            print("FAIL %s: patch does not apply (the tree moved on?): %s" % (name, r.stdout[:200])); bad += 1; continue
        try:
            r = sh("./check %s --tier quick" % det["check"], cwd=VERIF)
            caught = r.returncode == 1 and "VIOLATION property=%s" % det["check"] in r.stdout
            if det["expect"] == "violation":
                ok = caught
            else:
                ok = r.returncode in (0, 1)
            print("%s %s [%s expects %s] rc=%d%s" % ("ok  " if ok else "FAIL", name, det["check"], det["expect"], r.returncode, " (now caught)" if det["expect"] == "missed" and caught else ""))
            if not ok:
                bad += 1
                print("\n".join("      " + l for l in r.stdout.splitlines()[-6:]))
        finally:
            sh("git -C %s checkout -- ." % REPO)
    print("selftest: %d failures" % bad)
    return 1 if bad else 0

sys.exit(main())
