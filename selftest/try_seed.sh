#!/bin/sh
# usage: try_seed.sh <patch.diff> <PROP> [tier]  — apply to /repo, run the check, undo
set -e
[ -z "$(git -C /repo status --porcelain)" ] || { echo "/repo dirty"; exit 2; }
git -C /repo apply "$1"
cd /verif
./check "$2" --tier "${3:-quick}" 2>&1 | grep -v "^KNOWN-FINDING" | cut -c1-400 || true
git -C /repo checkout -- .
