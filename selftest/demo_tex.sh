#!/bin/sh
# usage: demo_tex.sh <PROP> <i> <demo.tex> — runs the TeX demo with and without the seeded patch in the agent's worktree
P=$1; I=$2; D=$3; W=/tmp/wt/$P
cd $W || exit 2
export CARGO_NET_OFFLINE=true CARGO_TARGET_DIR=$W/target
git checkout -q -- .
cargo build --offline --bin texcraft >/dev/null 2>&1
./target/debug/texcraft run OUT/$I/$D > OUT/$I/demo_head.out 2>&1; echo "head rc=$?" 
git apply OUT/$I/patch.diff
cargo build --offline --bin texcraft >/dev/null 2>&1
./target/debug/texcraft run OUT/$I/$D > OUT/$I/demo_patched.out 2>&1; echo "patched rc=$?"
git checkout -q -- .
if cmp -s OUT/$I/demo_head.out OUT/$I/demo_patched.out; then echo "SAME OUTPUT (demo does not discriminate)"; else echo "DIFFERENT OUTPUT (demo discriminates)"; fi
head -c 300 OUT/$I/demo_head.out; echo; echo ---; head -c 300 OUT/$I/demo_patched.out; echo
