#!/usr/bin/env python3
"""Generates selftest/patches/*.diff from (file, old, new) edits applied to a clean /repo.
Each edit must still type-check (the check's extraction fails otherwise)."""
import json, os, subprocess, sys
HERE = os.path.dirname(os.path.abspath(__file__))
REPO = "/repo"
M = []
def m(name, check, expect, key, edits, tier="quick"):
    M.append((name, check, expect, key, edits, tier))

# ---------------- C01
m("c01-drop-fonts-push", "C01", "violation", "Internal.fonts_save_stack/begin_group",
  [("crates/texlang/src/vm/mod.rs", "        self.internal.fonts_save_stack.push(None);\n    }", "    }")])
m("c01-hook-after-early-parse", "C01", "violation", "math_primitive_fn",
  [("crates/texlang-stdlib/src/math.rs",
    "    let scope = TexlangState::variable_assignment_scope_hook(input.state_mut());\n    let token = input.next_or_err(ArithmeticVariableEndOfInput {})?;\n    match token.value() {\n        token::Value::CommandRef(command_ref) => {\n            match input.commands_map().get_command(&command_ref) {\n                None => input.error(",
    "    let token = input.next_or_err(ArithmeticVariableEndOfInput {})?;\n    match token.value() {\n        token::Value::CommandRef(command_ref) => {\n            match input.commands_map().get_command(&command_ref) {\n                None => input.error(")
   , ("crates/texlang-stdlib/src/math.rs",
    "                    let variable = cmd.clone().resolve(token, input.as_mut())?;\n                    OptionalBy::parse(input)?;\n                    match variable {",
    "                    let cmd = cmd.clone();\n                    let scope = TexlangState::variable_assignment_scope_hook(input.state_mut());\n                    let variable = cmd.resolve(token, input.as_mut())?;\n                    OptionalBy::parse(input)?;\n                    match variable {")])
m("c01-insert-purges-last-only", "C01", "violation", "GroupingContainer::insert",
  [("crates/texcraft-stdext/src/collections/groupingmap.rs",
    "                for group in &mut self.groups {\n                    group.remove(&key);\n                }",
    "                if let Some(group) = self.groups.last_mut() {\n                    group.remove(&key);\n                }")])
m("c01-backing-container-mut", "C01", "violation", "sig:",
  [("crates/texcraft-stdext/src/collections/groupingmap.rs",
    "    /// Iterate over all (key, value) tuples that are currently visible.\n    pub fn iter(&self)",
    "    pub fn backing_container_mut(&mut self) -> &mut T {\n        &mut self.backing_container\n    }\n\n    /// Iterate over all (key, value) tuples that are currently visible.\n    pub fn iter(&self)")])
# ---------------- C09
m("c09-swallow-signal", "C09", "violation", "next_expanded",
  [("crates/texlang/src/vm/streams.rs",
    "                    vm.stack_push(token, error::OperationKind::Expansion);\n                    let err_or = command(token, ExpansionInput::new(vm));\n                    vm.stack_pop();\n                    err_or?;\n                }\n                Some(command::Command::Macro(command)) => {",
    "                    vm.stack_push(token, error::OperationKind::Expansion);\n                    let err_or = command(token, ExpansionInput::new(vm));\n                    vm.stack_pop();\n                    let _ = err_or;\n                }\n                Some(command::Command::Macro(command)) => {")])
m("c09-forged-signal", "C09", "violation", "R9.2",
  [("crates/texlang-stdlib/src/sleep.rs", "use texlang::*;", "use texlang::*;\n#[allow(dead_code)]\nfn stop_now() -> texlang::vm::ShutdownSignal {\n    texlang::vm::ShutdownSignal {}\n}")])
m("c09-push-without-pop", "C09", "violation", "push#",
  [("crates/texlang/src/variable.rs",
    "        let err_or = variable.set_value_using_input(input, scope);\n        input.vm_mut().stack_pop();\n        err_or",
    "        let err_or = variable.set_value_using_input(input, scope);\n        if err_or.is_err() {\n            return err_or;\n        }\n        input.vm_mut().stack_pop();\n        err_or")])
m("c09-drop-repr-transparent", "C09", "violation", "repr:texlang::vm::streams::ExpandedStream",
  [("crates/texlang/src/vm/streams.rs", "#[repr(transparent)]\npub struct ExpandedStream<S>(UnexpandedStream<S>);", "pub struct ExpandedStream<S>(UnexpandedStream<S>);")])
m("c09-new-unwrap", "C09", "violation", "K2",
  [("crates/texlang-stdlib/src/chardef.rs", "use texlang::*;", "use texlang::*;"),
   ("crates/texlang-stdlib/src/input.rs", "        let u: usize = match index.try_into() {\n            Ok(u) => u,\n            Err(_) => return None,\n        };", "        let u: usize = index.try_into().unwrap();")])
# ---------------- C03
m("c03-space-midline-state", "C03", "violation", "(Space,MidLine)",
  [("crates/texlang/src/token/lexer.rs", "                        Token::new_space(' ', raw_token.trace_key),\n                        State::SkipBlanks,", "                        Token::new_space(' ', raw_token.trace_key),\n                        State::MidLine,")])
m("c03-advance-drops-key", "C03", "violation", "RawLexer::advance",
  [("crates/texlang/src/token/lexer.rs", "            .len_utf8();\n        self.trace_key_range.next();\n    }", "            .len_utf8();\n    }")])
m("c03-cs-follow-state", "C03", "violation", "first=Space",
  [("crates/texlang/src/token/lexer.rs", "            CatCode::Letter | CatCode::Space => State::SkipBlanks,", "            CatCode::Letter => State::SkipBlanks,")])
m("c03-weak-ascii-guard", "C03", "violation", "is_ascii#0",
  [("crates/texlang/src/token/lexer.rs", "        if !char_3.is_ascii() {\n            return true;\n        }", "        if !char_3.is_ascii() && char_1_consumed {\n            return true;\n        }")])
# ---------------- C07
m("c07-else-at-any-depth", "C07", "violation", "false_case",
  [("crates/texlang-stdlib/src/conditional.rs", "            if tag == Some(input.state().component().tags.else_tag) && depth == 0 {\n                push_branch(\n                    input,\n                    Branch {\n                        _token: original_token,",
    "            if tag == Some(input.state().component().tags.else_tag) {\n                push_branch(\n                    input,\n                    Branch {\n                        _token: original_token,")])
m("c07-else-valid-after-else", "C07", "violation", "else_primitive_fn/top=Else",
  [("crates/texlang-stdlib/src/conditional.rs", "        Some(branch) => matches!(branch.kind, BranchKind::True | BranchKind::Switch),", "        Some(branch) => matches!(branch.kind, BranchKind::True | BranchKind::Switch | BranchKind::Else),")])
m("c07-expand-in-loop", "C07", "violation", "expandafter_optimized_fn",
  [("crates/texlang-stdlib/src/expansion.rs", "        if second.value() != expandafter_token.value() {\n            input.back(second);\n            break;\n        }\n    }\n    input.expanded().expand_once()?;",
    "        if second.value() != expandafter_token.value() {\n            input.back(second);\n            input.expanded().expand_once()?;\n            break;\n        }\n        input.expanded().expand_once()?;\n    }")])
# ---------------- C08
m("c08-skip-next-key", "C08", "violation", "Tracer.next_key",
  [("crates/texlang/src/token/trace.rs", "    next_key: u32,", "    #[cfg_attr(feature = \"serde\", serde(skip))]\n    next_key: u32,")])
# ---------------- C16
m("c16-writer-opcode", "C16", "violation", "writer:Move/0=X",
  [("crates/dvi/src/serialize.rs", "                Var::X => 152,", "                Var::X => 153,")])
m("c16-reader-width", "C16", "violation", "op144",
  [("crates/dvi/src/deserialize.rs", "        144 => Op::Right(d.i16()?.into()),", "        144 => Op::Right(d.u16()?.into()),")])
m("c16-axis", "C16", "violation", "VarRemover/Move(Y)",
  [("crates/dvi/src/transforms.rs", "                    Var::W | Var::X => Op::Right(value),\n                    Var::Y | Var::Z => Op::Down(value),", "                    Var::W | Var::X | Var::Y => Op::Right(value),\n                    Var::Z => Op::Down(value),")])
# ---------------- C20
m("c20-relock", "C20", "violation", "Tag::new",
  [("crates/texlang/src/command/mod.rs", "        let mut n = NEXT_TAG_VALUE.lock().unwrap();\n        let tag = Tag(num::NonZeroU32::new(*n).unwrap());\n        *n = n.checked_add(1).unwrap();\n        tag",
    "        let v = *NEXT_TAG_VALUE.lock().unwrap();\n        let tag = Tag(num::NonZeroU32::new(v).unwrap());\n        *NEXT_TAG_VALUE.lock().unwrap() = v.checked_add(1).unwrap();\n        tag")])
m("c20-wrapping", "C20", "violation", "Tag::new",
  [("crates/texlang/src/command/mod.rs", "        *n = n.checked_add(1).unwrap();", "        *n = n.wrapping_add(1).max(1);")])
# ---------------- C06
m("c06-advance-checked", "C06", "violation", "AdvanceOp",
  [("crates/texlang-stdlib/src/math.rs", "        // TeX silently overflows in \\advance\n        Ok(N::wrapping_add(lhs, rhs_n))", "        Ok(N::checked_add(lhs, rhs_n).unwrap_or(lhs))")])
m("c06-inch", "C06", "violation", "fraction(Inch)",
  [("crates/common/src/lib.rs", "            Inch => (7227, 100),", "            Inch => (7227, 10),")])
# ---------------- C10 / C18
m("c10-new-unwrap", "C10", "violation", "K2",
  [("crates/tfm/src/deserialize.rs", "        if s.ne > 255 {", "        let _check: u8 = s.nl.try_into().unwrap();\n        if s.ne > 255 {")])
m("c18-drop-shift", "C18", "violation", "HBox.shift_amount/parse",
  [("crates/boxworks/src/lang/convert.rs", "            shift_amount: self.shift_amount.value,\n            glue_ratio: self.glue_ratio.value,", "            shift_amount: Default::default(),\n            glue_ratio: self.glue_ratio.value,")])
# ---------------- behaviour preserving
m("c06-hex-letter-guard", "C06", "violation", "parse_constant",
  [("crates/texlang/src/parse/integer.rs", "                if RADIX == 16 && d < 6 {", "                if RADIX == 16 && d <= 6 {")])
m("c06-from-integer-guard", "C06", "violation", "from_integer",
  [("crates/common/src/lib.rs", "        if i >= (1 << 14) || i <= -(1 << 14) {", "        if i > (1 << 14) || i <= -(1 << 14) {")])
m("bp-rename-depth", "C07", "silent", "",
  [("crates/texlang-stdlib/src/conditional.rs", "fn false_case<S: HasComponent<Component>>(\n    original_token: token::Token,\n    input: &mut vm::ExpansionInput<S>,\n) -> txl::Result<()> {\n    // A 64-bit counter: the depth is bounded only by the number of tokens in the input.\n    let mut depth = 0_i64;",
    "fn false_case<S: HasComponent<Component>>(\n    original_token: token::Token,\n    input: &mut vm::ExpansionInput<S>,\n) -> txl::Result<()> {\n    let mut depth: i64 = 0;\n    let _unused_marker = ();")])
m("bp-lexer-reorder-arms", "C03", "silent", "",
  [("crates/texlang/src/token/lexer.rs", "                CatCode::Letter => (Token::new_letter(c, raw_token.trace_key), State::MidLine),\n                CatCode::Other => (Token::new_other(c, raw_token.trace_key), State::MidLine),",
    "                CatCode::Other => (Token::new_other(c, raw_token.trace_key), State::MidLine),\n                CatCode::Letter => (Token::new_letter(c, raw_token.trace_key), State::MidLine),")])
m("bp-tag-new-expect", "C20", "silent", "",
  [("crates/texlang/src/command/mod.rs", "        *n = n.checked_add(1).unwrap();", "        *n = n.checked_add(1).expect(\"fewer than 2^32 tags\");")])
m("bp-dvi-local", "C16", "silent", "",
  [("crates/dvi/src/serialize.rs", "        Op::Right(i) => {\n            w.i32_var(143, *i);", "        Op::Right(i) => {\n            let amount = *i;\n            w.i32_var(143, amount);")])
m("bp-hook-first-stmt-reorder", "C01", "silent", "",
  [("crates/texlang-stdlib/src/registers.rs", "    let scope = TexlangState::variable_assignment_scope_hook(input.state_mut());\n    let (cmd_ref_or, _, index) =", "    let state = input.state_mut();\n    let scope = TexlangState::variable_assignment_scope_hook(state);\n    let (cmd_ref_or, _, index) =")])
m("bp-peek-via-map", "C03", "silent", "",
  [("crates/texlang/src/token/lexer.rs",
    "        match self.next_char() {\n            Some(c) => {\n                let code = config.cat_code(c);\n                Some(RawToken {\n                    char: c,\n                    code,\n                    trace_key: self.trace_key_range.peek(),\n                })\n            }\n            None => None,\n        }",
    "        let range = &mut self.trace_key_range;\n        self.current_line[self.pos..].chars().next().map(|c| RawToken {\n            char: c,\n            code: config.cat_code(c),\n            trace_key: range.peek(),\n        })")])
m("bp-iterall-while-let", "C08", "silent", "",
  [("crates/texcraft-stdext/src/collections/groupingmap.rs",
    "            for visible_item in visible_items {\n                match self.key_to_val.get(&visible_item.0) {",
    "            #[allow(clippy::while_let_on_iterator)]\n            while let Some(visible_item) = visible_items.next() {\n                match self.key_to_val.get(&visible_item.0) {")])
m("bp-guarded-digit-index", "C06", "silent", "",
  [("crates/texlang/src/parse/dimen.rs",
    "        if let Some(digit) = digits.get_mut(i) {\n            *digit = d;\n            i += 1;\n        }",
    "        if i < digits.len() {\n            digits[i] = d;\n            i += 1;\n        }")])
m("c10-section-len-as-i16", "C10", "violation", "serialize_section",
  [("crates/tfm/src/serialize.rs", "    ((b.len() - start) / 4).try_into().unwrap()", "    ((b.len() - start) / 4) as i16")])
m("c18-boxnumber-guarded-cast", "C18", "silent", "",
  [("crates/boxworks/src/lang/convert.rs", "            box_number: self.box_number.value as u8,", "            box_number: if (0..=255).contains(&self.box_number.value) { self.box_number.value as u8 } else { 255 },")])

def sh(c):
    return subprocess.run(c, shell=True, stdout=subprocess.PIPE, stderr=subprocess.STDOUT, text=True)

def main():
    if sh("git -C %s status --porcelain" % REPO).stdout.strip():
        print("refusing: /repo dirty"); return 2
    expp = os.path.join(HERE, "expect.json")
    exp = json.load(open(expp))
    only = sys.argv[1:]
    for name, check, expect, key, edits, tier in M:
        if only and not any(o in name for o in only):
            continue
        okk = True
        for f, old, new in edits:
            p = os.path.join(REPO, f)
            s = open(p).read()
            if old not in s:
                print("EDIT DOES NOT APPLY:", name, f); okk = False; break
            open(p, "w").write(s.replace(old, new, 1))
        if okk:
            d = sh("git -C %s diff" % REPO).stdout
            open(os.path.join(HERE, "patches", name + ".diff"), "w").write(d)
            e = {"check": check, "expect": expect, "tier": tier}
            if key:
                e["key_contains"] = key
            exp[name] = e
        sh("git -C %s checkout -- ." % REPO)
    json.dump(exp, open(expp, "w"), indent=1, sort_keys=True)
    print("generated", len(M))

sys.exit(main())
