#!/bin/sh
# usage: confirm_seed.sh <PROP> <i>   — in the agent's scratch worktree /tmp/wt/<PROP>: apply OUT/<i>/patch.diff,
# cargo check + cargo test --workspace --offline, record the totals, undo.
P=$1; I=$2; W=/tmp/wt/$P
cd $W || exit 2
git checkout -q -- . 
git apply OUT/$I/patch.diff || { echo "patch does not apply"; exit 2; }
export CARGO_NET_OFFLINE=true CARGO_TARGET_DIR=$W/target
cargo check --workspace --offline > OUT/$I/confirm_check.log 2>&1; echo "check rc=$?" > OUT/$I/confirm.txt
cargo test --workspace --no-fail-fast --offline > OUT/$I/confirm_test.log 2>&1; echo "test rc=$?" >> OUT/$I/confirm.txt
grep -E "^test result" OUT/$I/confirm_test.log | awk '{p+=$4; f+=$6} END {print "passed="p" failed="f}' >> OUT/$I/confirm.txt
git checkout -q -- .
cat OUT/$I/confirm.txt
