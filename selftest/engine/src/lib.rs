//! Cases for the discharge rules of the potential-panic-site engine (selftest/engine_test.py).
//! `ok_*`: the named site must be discharged automatically. `bad_*`: it must NOT be.
#![allow(clippy::all)]
pub struct S {
    pub a: u8,
    pub v: Vec<u8>,
}

pub fn ok_field_guard(v: &S) -> u8 {
    if v.a < 18 { 0 } else { v.a - 18 }
}
pub fn bad_field_guard_mut(v: &mut S) -> u8 {
    if v.a < 18 { 0 } else { v.a = 3; v.a - 18 }
}
pub fn bad_field_guard_dir(v: &S) -> u8 {
    if v.a > 18 { 0 } else { v.a - 18 }
}
pub fn ok_ne_zero(i: usize) -> usize {
    if i == 0 { 0 } else { i - 1 }
}
pub fn bad_ne_other(i: usize, j: usize) -> usize {
    if j == 0 { 0 } else { i - 1 }
}
pub fn ok_range_index(xs: &[u8]) -> u8 {
    let mut a = 0u8;
    for k in (0..xs.len()).rev() {
        a = a.wrapping_add(xs[k]);
    }
    a
}
pub fn bad_range_index(xs: &[u8], ys: &[u8]) -> u8 {
    let mut a = 0u8;
    for k in 0..ys.len() {
        a = a.wrapping_add(xs[k]);
    }
    a
}
pub fn ok_copy(dst: &mut [u8; 64], src: &[u8; 4]) {
    dst[..src.len()].copy_from_slice(src);
}
pub fn bad_copy(dst: &mut [u8; 64], src: &[u8; 4], other: &[u8]) {
    dst[..other.len()].copy_from_slice(src);
}
pub fn ok_is_empty(v: &[u8]) -> u8 {
    if v.is_empty() { 0 } else { v[0] }
}
pub fn bad_is_empty_other(v: &[u8], w: &[u8]) -> u8 {
    if w.is_empty() { 0 } else { v[0] }
}
pub fn bad_is_empty_mut(s: &mut S) -> u8 {
    if s.v.is_empty() { 0 } else { s.v.clear(); s.v[0] }
}
pub fn ok_len_sub(v: &[u8]) -> usize {
    if v.len() >= 2 { v.len() - 2 } else { 0 }
}
pub fn bad_len_sub(v: &[u8]) -> usize {
    if v.len() >= 1 { v.len() - 2 } else { 0 }
}
pub fn ok_shift(x: i64) -> i64 {
    x >> 16
}
pub fn bad_shift(x: i64, n: u32) -> i64 {
    x >> n
}
pub fn ok_widen(a: i32, b: i32) -> i64 {
    a as i64 * b as i64
}
pub fn bad_widen(a: i64, b: i32) -> i64 {
    a * b as i64
}
pub fn ok_char_sub(c: char) -> i32 {
    c as i32 - '0' as i32
}
pub fn ok_to_digit(c: char) -> Option<u32> {
    c.to_digit(16)
}
pub fn bad_to_digit(c: char, r: u32) -> Option<u32> {
    c.to_digit(r)
}
pub struct D<'a> {
    b: &'a [u8],
}
impl<'a> D<'a> {
    fn take(&mut self, n: usize) -> Result<&'a [u8], ()> {
        let Some((head, tail)) = self.b.split_at_checked(n) else {
            return Err(());
        };
        self.b = tail;
        Ok(head)
    }
    fn take_tail(&mut self, n: usize) -> Result<&'a [u8], ()> {
        let Some((head, tail)) = self.b.split_at_checked(n) else {
            return Err(());
        };
        self.b = head;
        Ok(tail)
    }
    pub fn ok_get<const N: usize>(&mut self) -> Result<[u8; N], ()> {
        let head = self.take(N)?;
        Ok(head.try_into().expect("slice has length N"))
    }
    pub fn bad_get_tail<const N: usize>(&mut self) -> Result<[u8; N], ()> {
        let t = self.take_tail(N)?;
        Ok(t.try_into().expect("slice has length N"))
    }
    pub fn bad_get_other<const N: usize>(&mut self, m: usize) -> Result<[u8; N], ()> {
        let head = self.take(m)?;
        Ok(head.try_into().expect("slice has length N"))
    }
}
pub fn ok_usize_arg(start: usize) -> usize {
    start + 1
}
pub fn bad_u32_arg(start: u32) -> u32 {
    start + 1
}
pub fn ok_some_guard(o: Option<u8>) -> u8 {
    if o.is_some() { o.unwrap() } else { 0 }
}
pub fn bad_some_guard(o: Option<u8>, p: Option<u8>) -> u8 {
    if p.is_some() { o.unwrap() } else { 0 }
}
pub fn ok_const_index(a: &[u8; 17], i: usize) -> u8 {
    if i < a.len() { a[i] } else { 0 }
}
pub fn bad_const_index(a: &[u8; 17], i: usize) -> u8 {
    if i <= a.len() { a[i] } else { 0 }
}
pub fn ok_flag_guard(depth: usize) -> usize {
    let is_nested = depth >= 2;
    let mut acc = 0;
    if is_nested {
        acc += depth - 2;
    }
    acc
}
pub fn bad_flag_guard(mut depth: usize) -> usize {
    let is_nested = depth >= 2;
    depth /= 4;
    if is_nested {
        depth - 2
    } else {
        0
    }
}
pub fn ok_copy_const(dst: &mut [u8; 64], src: &[u8; 24]) {
    dst[..24].copy_from_slice(src);
}
pub fn bad_copy_const(dst: &mut [u8; 64], src: &[u8; 24]) {
    dst[..25].copy_from_slice(src);
}
pub fn ok_range_len(v: &[u8]) -> &[u8] {
    if v.len() >= 24 { &v[..24] } else { v }
}
pub fn bad_range_len(v: &[u8]) -> &[u8] {
    if v.len() >= 24 { &v[..25] } else { v }
}
pub fn bad_guard_then_assign(mut depth: usize) -> usize {
    if depth >= 2 {
        depth /= 4;
        depth - 2
    } else {
        0
    }
}
pub fn ok_loop_guard(a: &[u8; 8]) -> u8 {
    let mut i = 0usize;
    let mut s = 0u8;
    while i < 8 {
        s = s.wrapping_add(a[i]);
        i += 1;
    }
    s
}
pub fn bad_loop_guard(a: &[u8; 8]) -> u8 {
    let mut i = 0usize;
    let mut s = 0u8;
    while i < 8 {
        i += 1;
        s = s.wrapping_add(a[i]);
    }
    s
}
pub fn ok_const_range(a: &[i32; 7]) -> i32 {
    let mut acc = 0i32;
    for j in (0..7).rev() {
        acc = acc.wrapping_add(a[j]);
    }
    acc
}
pub fn bad_const_range(a: &[i32; 7]) -> i32 {
    let mut acc = 0i32;
    for j in (0..8).rev() {
        acc = acc.wrapping_add(a[j]);
    }
    acc
}
pub fn bad_counter_index(a: &[i32; 7], n: usize) -> i32 {
    let mut acc = 0i32;
    let mut j = 0usize;
    for _ in 0..n {
        if j < 7 {
            acc = acc.wrapping_add(1);
        }
        j += 1;
    }
    for k in (0..j).rev() {
        acc = acc.wrapping_add(a[k]);
    }
    acc
}
pub fn ok_wide_counter(xs: &[u8]) -> i64 {
    let mut depth = 0_i64;
    for x in xs {
        if *x == b'{' {
            depth += 1;
        } else if *x == b'}' {
            depth -= 1;
        }
    }
    depth
}
pub fn bad_narrow_counter(xs: &[u8]) -> i32 {
    let mut depth = 0_i32;
    for x in xs {
        if *x == b'{' {
            depth += 1;
        }
    }
    depth
}
pub fn bad_wide_counter_scaled(xs: &[i64]) -> i64 {
    let mut depth = 0_i64;
    for x in xs {
        depth += 1;
        depth = depth * *x;
    }
    depth
}
pub fn bad_unsigned_counter(xs: &[u8]) -> u64 {
    let mut depth = 0_u64;
    for x in xs {
        if *x == b'}' {
            depth -= 1;
        }
    }
    depth
}
pub fn ok_dead_arm_guarded(value: u8) -> u8 {
    if value >= 18 {
        return 0;
    }
    match value / 6 {
        0 => 10,
        1 => 11,
        2 => 12,
        _ => unreachable!(),
    }
}
pub fn ok_dead_arm_rem(value: u32) -> u8 {
    match (value % 6) / 2 {
        0 => 10,
        1 => 11,
        2 => 12,
        _ => unreachable!(),
    }
}
pub fn ok_dead_arm_mask(value: u8) -> u8 {
    match value & 3 {
        0 => 1,
        1 => 2,
        2 => 3,
        3 => 4,
        _ => unreachable!(),
    }
}
pub fn bad_dead_arm_off_by_one(value: u8) -> u8 {
    if value > 18 {
        return 0;
    }
    match value / 6 {
        0 => 10,
        1 => 11,
        2 => 12,
        _ => unreachable!(),
    }
}
pub fn bad_dead_arm_reassigned(mut value: u8, k: u8) -> u8 {
    if value >= 18 {
        return 0;
    }
    value = value.wrapping_add(k);
    match value / 6 {
        0 => 10,
        1 => 11,
        2 => 12,
        _ => unreachable!(),
    }
}
pub fn bad_dead_arm_signed(value: i8) -> u8 {
    match value % 3 {
        0 => 10,
        1 => 11,
        2 => 12,
        _ => unreachable!(),
    }
}
pub fn ok_trim_len_difference(line: &str) -> usize {
    let trimmed = line.trim_end_matches(' ');
    line.len() - trimmed.len()
}
pub fn bad_trim_len_difference_other(line: &str, other: &str) -> usize {
    let trimmed = other.trim_end_matches(' ');
    line.len() - trimmed.len()
}
pub fn ok_slice_at_find(s: &str) -> &str {
    match s.find('\n') {
        Some(i) => &s[..i],
        None => s,
    }
}
pub fn bad_slice_at_find_other<'a>(s: &'a str, other: &'a str) -> &'a str {
    match other.find('\n') {
        Some(i) => &s[..i],
        None => s,
    }
}
pub fn bad_slice_at_find_plus(s: &str) -> &str {
    match s.find('é') {
        Some(i) => &s[..i.wrapping_add(1)],
        None => s,
    }
}
