#!/opt/veriftools/pyvenv/bin/python
import json, sys, glob, jsonschema
m = json.load(open('/verif/MANIFEST.json'))
jsonschema.validate(m, json.load(open('/root/.vp/MANIFEST.schema.json')))
es = json.load(open('/root/.vp/EVIDENCE.schema.json'))
for c in m['checks']:
    p = '/verif/' + c['evidence_file']
    try:
        jsonschema.validate(json.load(open(p)), es)
        print('ok', p)
    except FileNotFoundError:
        print('MISSING', p)
props = [json.loads(l)['id'] for l in open('/verif/properties.jsonl')]
claimed = {c['property_id'] for c in m['checks']}
na = {n['property_id'] for n in m.get('not_applicable', [])}
assert claimed | na == set(props) and not (claimed & na), (claimed, na)
print('manifest ok: claimed', sorted(claimed))
