#!/usr/bin/env python3
"""Helper used while triaging: reads the violations of the last run of a check
(findings/<prop>/*.json) and files each under tables/pps_audited.json (audited
invariant) or known_findings.jsonl (reproduced defect) by key substring.
Usage: tools_triage.py <PROP> <triage.py>   where triage.py defines AUD={sub: why}, FIND={sub: (what, input)}"""
import glob, json, os, sys
prop, src = sys.argv[1], sys.argv[2]
ns = {}
exec(open(src).read(), ns)
AUD, FIND = ns.get("AUD", {}), ns.get("FIND", {})
tabp = '/verif/tables/pps_audited.json'
tab = json.load(open(tabp))
known = [json.loads(l) for l in open('/verif/known_findings.jsonl') if l.strip()]
kk = {(d['property'], d['rule'], d['key']) for d in known}
n_a = n_f = 0
left = []
for p in sorted(glob.glob('/verif/findings/%s/*.json' % prop)):
    v = json.load(open(p))
    k = v['key']
    ma = [s for s in AUD if s in k]
    mf = [s for s in FIND if s in k]
    if mf:
        s = max(mf, key=len)
        if (prop, v['rule'], k) not in kk:
            what, inp = FIND[s]
            known.append({"status": "known", "property": prop, "rule": v['rule'], "key": k, "what": what + " — input: " + inp, "input": inp,
                          "snip": (v.get("detail") or {}).get("snip") if isinstance(v.get("detail"), dict) else None})
            n_f += 1
    elif ma:
        s = max(ma, key=len)
        if k in tab and (tab[k].get("props") or tab[k].get("by_prop")) and prop not in (tab[k].get("props") or []):
            tab[k].setdefault("by_prop", {})[prop] = {"why": AUD[s]}
        elif k.startswith(("common::", "<common::")):
            tab.setdefault(k, {}).setdefault("by_prop", {})[prop] = {"why": AUD[s]}
        else:
            tab[k] = {"why": AUD[s]}
        if isinstance(v.get("detail"), dict) and v["detail"].get("snip"):
            tab[k]["snip"] = v["detail"]["snip"]
        n_a += 1
    else:
        left.append((k, v.get('loc')))
json.dump(tab, open(tabp, 'w'), indent=1, sort_keys=True)
open('/verif/known_findings.jsonl', 'w').write("".join(json.dumps(d) + "\n" for d in known))
print("audited +%d, findings +%d, untriaged %d" % (n_a, n_f, len(left)))
for k, l in left:
    print("  ", k, l)
