#!/usr/bin/env python3
"""Regenerates MANIFEST.json from the table below (single source of truth)."""
import json, os
NA = {
 "C02":"macro argument binding is a function of input token values (shortest balanced run, single-group trimming); no path/pairing/table clause is a necessary condition that survives the obvious refactors — static analysis declines (DESIGN §4)",
 "C04":"demerit optimality quantifies over all break sequences of numeric lists; nothing in the code's shape is a necessary condition (DESIGN §4)",
 "C05":"equivalence of compiled and interpreted lig/kern programs and exact loop detection are semantic equivalences over all programs and words (DESIGN §4)",
 "C11":"idempotence of TFM<->PL normalisation and font equality are data equalities over all fonts (DESIGN §4)",
 "C12":"content conservation and geometry through line breaking are statements about list values (DESIGN §4)",
 "C13":"Liang hyphenation positions for all pattern sets are value-level (DESIGN §4)",
 "C14":"reconstitution invariants over all words/fonts are value-level (DESIGN §4)",
 "C15":"box dimensions and glue setting are arithmetic over list values (DESIGN §4)",
 "C17":"fix_word printing, store_scaled, compression tolerance are universally quantified numeric statements (DESIGN §4)",
 "C19":"\\input/\\endinput/\\read semantics concern which characters are read when; the one path-shaped fact is already pinned by a test (DESIGN §4)",
}
TRUST = "Trusted: rustc nightly type checker, MIR construction (mir-opt-level=0) and Instance resolution; txv-driver's JSON lowering. Generic code is analysed polymorphically, once. "
CLAIMED = {
 "C01": dict(text="Static analysis of the type-checked program (MIR of every workspace target). Decides structural necessary conditions of group scoping on all paths / all containers / all levels / all prefixable commands; it does not decide that restored values are right.",
             note=TRUST+"Assumes the group machinery is only entered through VM::begin_group/end_group (checked: who-may-write).",
             tech="custom MIR dataflow/CFG rules (must-pass-through, loop variance, def-use, who-may-write) via rustc_private driver"),
 "C03": dict(text="Static analysis: finite-domain specialisation (conditional constant propagation over MIR) of Lexer::next over all 16x3 (category code, scanner state) cells, of read_control_sequence over 16 categories and of CatCode::try_from over all 256 bytes, compared with tables transcribed from TeX: The Program; cursor/trace-key co-update on every path of every raw-lexer method; the unsafe ^^ byte write is unreachable when either ASCII check fails. Exhaustive over those finite domains. Line trimming, \\endlinechar insertion, trace line/column arithmetic and key-range sufficiency are value-level and not decided.",
             note=TRUST+"Reference tables transcribed by hand from TeX: The Program §§207, 343-355.",
             tech="decision-table extraction by abstract interpretation of MIR over finite key domains + CFG pairing rule"),
 "C06": dict(text="Static analysis (partial claim). Decided: the operator table of \\advance/\\multiply/\\divide (silent wrap / checked + error / checked + error; an error means no store) by finite-domain specialisation of the Op impls and apply_to_variable; the nine unit conversion fractions and both keyword->unit tables against TeX §458 (exhaustive over the enum); every potential-panic site of the numeric modules reachable from the interpreter is discharged by a checked guard, its type, a size or an audited argument, or is a reproduced finding. NOT decided, and said so: bit-exact arithmetic results, print/scan round trip and rounding — the numeric core of C06 has no static argument in reach.",
             note=TRUST+"Audited discharges are arguments by reading (listed with their one-line invariant in tables/pps_audited.json).",
             tech="decision-table extraction + constant-table comparison + potential-panic-site enumeration with guard discharge over the call graph"),
 "C07": dict(text="Static analysis: sibling agreement of the four token-skipping loops on nesting discipline (unexpanded reads only, +1 on if / -1 on fi, else/or honoured only at depth 0, no other exit); the closer validity table extracted by finite-domain specialisation (exhaustive 4x3) against TeX's if_limit rule; branch-stack push/pop discipline on every path; the signed-remainder parity pattern; expand-exactly-once and token conservation in both \\expandafter implementations. Does not decide operand evaluation nor program equivalence of the two \\expandafter versions.",
             note=TRUST+"Unrecognised code shapes in the anchored loops stop the analysis (exit 2) rather than produce a verdict.",
             tech="sibling-shape comparison on CFG/dominators + decision-table extraction + def-use token conservation + bug-pattern lint"),
 "C08": dict(text="Static analysis (derive(Serialize/Deserialize) output is analysed as ordinary MIR). Decides field coverage of the serialised state graph in both directions, variant coverage of the command (de)serialisers and agreement of the save-stack twin types; fields not covered must be in an audited reconstructible table whose `requires` clauses are re-checked. Does not decide behavioural equality of the restored VM.",
             note=TRUST+"A field read for another purpose inside a manual Serialize impl counts as written (over-approximation; derive output only reads fields it serialises).",
             tech="field/variant coverage analysis over MIR of serde impls (projection sets, input-derivation def-use) + audited table"),
 "C09": dict(text="Static analysis. Decides the shutdown protocol for every body of the interpreter crates (linear-resource analysis of ShutdownSignal carriers, signal provenance, execution-stack pairing), the unsafe inventory with its layout preconditions, and enumerates potential-panic sites reachable from VM::run, each discharged by a checked guard / audited argument or reported. Termination and std-internal panics outside the listed kinds are not decided.",
             note=TRUST+"Call graph over-approximates (class-hierarchy resolution of trait calls, fn-pointer registry). Audited discharges without a re-checked `requires` clause are arguments by reading.",
             tech="linear-resource (typestate) dataflow on MIR + call-graph reachability + potential-panic-site enumeration with guard discharge"),
 "C10": dict(text="Static analysis (partial claim). Decided: every explicit panic / unwrap-family site and every Add/Sub/Mul overflow assert on u8/i8/i16/u16 operands in functions reachable from tfm_to_pl / pl_to_tfm is discharged (constant, dominating comparison, type, audited author invariant) or is a reproduced finding. NOT decided, reported as `undecided` with counts: slice bounds and range slicing (the 4-byte-word invariant needs a congruence argument), 32-bit/usize arithmetic, the PL parser's span arithmetic, and that PL->TFM output is accepted by the TFM reader.",
             note=TRUST+"Most discharges in the tfm crate are the authors' stated invariants (expect messages), read and accepted — arguments by reading, listed in tables/pps_audited.json.",
             tech="potential-panic-site enumeration over the call graph from the conversion entry points, with guard/type/const discharge and an audited table"),
 "C16": dict(text="Static analysis: the deserializer's table (op_code = 0..=255, exhaustive) and the serializer's table (every Op variant x Var x move_h x fast/slow path, plus the u32_var/i32_var offset tables) are extracted from MIR by finite-domain specialisation and compared cell by cell: variant, constants, operand widths, signedness and field order; opcodes 250-255 are rejected. Axis partition of w/x/y/z agrees across Values::update and VarRemover, which passes all other operations through. Reader totality is decided by enumerating and discharging every potential-panic site of deserialize and its callees. Not decided: value-level boundary arithmetic of the 3-byte signed form, 'consumes every byte', position preservation as a value statement.",
             note=TRUST+"DVI opcode semantics are taken from the reader/writer pair themselves (agreement), plus DVI's fnt_def/string layouts transcribed by hand.",
             tech="decision-table extraction (abstract interpretation of MIR over finite key domains) + table agreement + potential-panic-site discharge"),
 "C18": dict(text="Static analysis (partial claim). Decided: the ds<->AST converters of the Box language cover every field of every ds struct and every variant of every ds/AST enum in both directions (a field dropped on either side must be in an audited table tied to the property's stated exclusions: kern/glue kinds, vbox glue setting, Whatsit), and explicit panic / unwrap-family sites reachable from parse_*, format and the printers are discharged or reproduced findings. NOT decided: that print and parse are inverse on values, formatter idempotence, bounds/arithmetic in the lexer beyond the unwrap family.",
             note=TRUST+"Keyword agreement of printer and parser holds by construction (one functions! macro table defines both).",
             tech="field/variant coverage analysis over MIR of the converter impls + potential-panic-site discharge"),
 "C20": dict(text="Static analysis. The concurrent clause (tags pairwise distinct under every schedule; a static tag resolves to one value) is decided by lock discipline in Tag::new — one Mutex guard, value read and checked write-back under it, strictly monotone — plus who-may rules (the counter, Tag construction, forging impls, StaticTag's OnceLock::get_or_init). For the containers only the API surface is decided (no mutable bypass: who-may-write + signatures, and compile_fail witnesses in the thorough tier). Model equivalence of the scoped map, interner correctness under hash collisions and KMP match positions are behavioural and NOT decided.",
             note=TRUST+"Mutual exclusion and OnceLock's once-semantics are std guarantees (trusted).",
             tech="lock-discipline / def-use rule on MIR + who-may-access rules + compile_fail witnesses"),
}
ORDER = ["C01","C03","C06","C07","C08","C09","C10","C16","C18","C20"]
PENDING = [p for p in ORDER if p not in CLAIMED]
checks = []
for p in ORDER:
    if p not in CLAIMED: continue
    c = CLAIMED[p]
    checks.append({"property_id":p,"quick_cmd":"./check %s --tier quick"%p,"thorough_cmd":"./check %s --tier thorough"%p,
      "evidence_file":"evidence/%s.json"%p,"replay_cmd_template":"./check %s --replay {path}"%p,"engine":"txv",
      "level_claimed":{"category":"other","text":c["text"],"design_ref":"DESIGN.md §3 %s"%p},
      "level_note":c["note"],"technique":c["tech"]})
na = dict(NA)
for p in PENDING:
    na[p] = "check under construction in this session (static rules designed in DESIGN §3); not claimed until its command exists"
m = {
 "version":1,
 "setup_cmd":"./setup.sh",
 "hooks":{"guard":"none","enable":"no hooks: static analysis reads /repo's source through a rustc driver; nothing in /repo is instrumented","baseline_off_cmd":"cd /repo && cargo test --workspace --no-fail-fast --offline","source_commits":[],"add_only":True},
 "engines":[
  {"name":"txv-driver","path":"driver/","serves_properties":sorted(CLAIMED),"kind_free_text":"rustc_private fact extractor (MIR, ADTs, impls, reifications, unsafe blocks) run as RUSTC_WORKSPACE_WRAPPER under cargo +nightly check --workspace"},
  {"name":"txv","path":"txv/","serves_properties":sorted(CLAIMED),"kind_free_text":"Python rule engine over the MIR facts: CFG must-pass-through, dominators, loops, def-use flow, linear-resource analysis, call graph, registry extraction, decision-table extraction, potential-panic-site discharge"}],
 "checks":checks,
 "not_applicable":[{"property_id":k,"reason":v} for k,v in sorted(na.items())],
 "notes":"All checks share one fact extraction keyed by a content hash of /repo's working tree (re-extracted whenever a source file changes). Exit 2 = analysis broken (missing anchor / below floor), never a verdict. fix: commits in /repo: 6a1534c, 0b8b57a, 5045ecf (see known_findings.jsonl)."
}
json.dump(m,open(os.path.join(os.path.dirname(os.path.abspath(__file__)),'MANIFEST.json'),'w'),indent=1)
print("claimed:",[c["property_id"] for c in checks])
