#!/usr/bin/env python3
"""Regenerates MANIFEST.json from the table below (single source of truth)."""
import json, os
NA = {
 "C02":"macro argument binding is a function of input token values (shortest balanced run, single-group trimming); no path/pairing/table clause is a necessary condition that survives the obvious refactors — static analysis declines (DESIGN §4)",
 "C04":"demerit optimality quantifies over all break sequences of numeric lists; nothing in the code's shape is a necessary condition (DESIGN §4)",
 "C05":"equivalence of compiled and interpreted lig/kern programs and exact loop detection are semantic equivalences over all programs and words (DESIGN §4)",
 "C11":"idempotence of TFM<->PL normalisation and font equality are data equalities over all fonts (DESIGN §4)",
 "C12":"content conservation and geometry through line breaking are statements about list values (DESIGN §4)",
 "C13":"Liang hyphenation positions for all pattern sets are value-level (DESIGN §4)",
 "C14":"reconstitution invariants over all words/fonts are value-level (DESIGN §4)",
 "C15":"box dimensions and glue setting are arithmetic over list values (DESIGN §4)",
 "C17":"fix_word printing, store_scaled, compression tolerance are universally quantified numeric statements (DESIGN §4)",
 "C19":"\\input/\\endinput/\\read semantics concern which characters are read when; the one path-shaped fact is already pinned by a test (DESIGN §4)",
}
TRUST = "Trusted: rustc nightly type checker, MIR construction (mir-opt-level=0) and Instance resolution; txv-driver's JSON lowering. Generic code is analysed polymorphically, once. "
CLAIMED = {
 "C01": dict(text="Static analysis of the type-checked program (MIR of every workspace target). Decides structural necessary conditions of group scoping on all paths / all containers / all levels / all prefixable commands: pairing of every grouped container with the VM group, purge loops of global assignment (three sibling implementations), hook consumption and scope provenance, who may write, the pending-\\global flag as an exhaustively explored transition system, the record of a group written once, no assignment path that ignores its scope. It does not decide that restored values are right (DESIGN §11.5).",
             note=TRUST+"Assumes the group machinery is only entered through VM::begin_group/end_group (checked: who-may-write).",
             tech="custom MIR dataflow/CFG rules (must-pass-through, loop variance, def-use, who-may-write) via rustc_private driver"),
 "C03": dict(text="Static analysis: finite-domain specialisation (conditional constant propagation over MIR) of Lexer::next over all 16x3 (category code, scanner state) cells, of read_control_sequence over 16 categories and of CatCode::try_from over all 256 bytes, compared with tables transcribed from TeX: The Program — exhaustive over those finite domains; cursor/trace-key co-update on every path of every raw-lexer method; guarded unsafe ^^ write; unit discipline of trace keys; trimming predicates; classification by category code only and provenance of the category code; every potential-panic site of the scanner and the tracer discharged, audited or a reproduced finding (the tracer's key-space limits); lossless narrowing including the scanner's configuration. Trace line/column arithmetic and \\endlinechar insertion as values are not decided (DESIGN §11.5).",
             note=TRUST+"Reference tables transcribed by hand from TeX: The Program §§207, 343-355.",
             tech="decision-table extraction by abstract interpretation of MIR over finite key domains + CFG pairing rule"),
 "C06": dict(text="Static analysis (partial claim). Decided: the operator table of \\advance/\\multiply/\\divide (silent wrap / checked + error / checked + error; an error means no store) by finite-domain specialisation; the unit conversion fractions and both keyword->unit tables against TeX §458; the 17-digit buffer, Scaled::new's check, layering of scaling arithmetic, TeX's digit classes and truncating division, a fraction only after a decimal constant, integer coercion on the magnitude, glue components printed only when non-zero, lossless narrowing; every potential-panic site of the numeric modules reachable from the interpreter is discharged, audited (some with re-checked guards) or a reproduced finding. NOT decided, and said so: bit-exact arithmetic results, print/scan round trip and rounding (DESIGN §11.5).",
             note=TRUST+"Audited discharges are arguments by reading (listed with their one-line invariant in tables/pps_audited.json).",
             tech="decision-table extraction + constant-table comparison + potential-panic-site enumeration with guard discharge over the call graph"),
 "C07": dict(text="Static analysis: sibling agreement of the token-skipping loops on nesting discipline (unexpanded reads only, +1 on if / -1 on fi, else/or honoured only at depth 0, no other exit); the closer validity table extracted by finite-domain specialisation (exhaustive 4x3) against TeX's if_limit rule; the \\ifcase sign table; branch-stack push/pop discipline on every path; the signed-remainder parity pattern; conditions compare the operands themselves; both kinds of command reference looked up alike; expand-exactly-once, token conservation and put-back discipline of expand_once and both \\expandafter implementations. Does not decide which branch is taken as a value statement nor program equivalence of the two \\expandafter versions (DESIGN §11.5).",
             note=TRUST+"Unrecognised code shapes in the anchored loops stop the analysis (exit 2) rather than produce a verdict.",
             tech="sibling-shape comparison on CFG/dominators + decision-table extraction + def-use token conservation + bug-pattern lint"),
 "C08": dict(text="Static analysis (derive(Serialize/Deserialize) output is analysed as ordinary MIR). Decides field coverage of the serialised state graph in both directions, variant coverage of the command (de)serialisers, agreement of the save-stack twin types, order- and length-preserving save-stack conversion, iter_all completeness, macro de-duplication by identity, unique serialised names, lossless narrowing and order preservation in hand-written checkpoint code; fields not covered must be in an audited reconstructible table whose `requires` clauses are re-checked. Does not decide behavioural equality of the restored VM (DESIGN §11.5).",
             note=TRUST+"A field read for another purpose inside a manual Serialize impl counts as written (over-approximation; derive output only reads fields it serialises).",
             tech="field/variant coverage analysis over MIR of serde impls (projection sets, input-derivation def-use) + audited table"),
 "C09": dict(text="Static analysis. Decides the shutdown protocol for every body of the interpreter crates (linear-resource analysis of ShutdownSignal carriers, signal provenance, execution-stack pairing both ways), the unsafe inventory with its layout preconditions, lossless narrowing, that the error hook returns the error it was given, an inventory of statically resolved recursion cycles, and enumerates ALL potential-panic sites (explicit panics, unwrap family, overflow/bounds/division asserts, curated panicking std calls) reachable from VM::run through the built-in registry, each discharged by a checked guard / type / interval argument, audited (some with re-checked clauses and guards) or reported as a reproduced finding; 0 undecided. Termination, allocation size and recursion through the primitive registry are not decided (DESIGN §11.5).",
             note=TRUST+"Call graph over-approximates (class-hierarchy resolution of trait calls, fn-pointer registry). Audited discharges without a re-checked `requires` clause are arguments by reading.",
             tech="linear-resource (typestate) dataflow on MIR + call-graph reachability + potential-panic-site enumeration with guard discharge"),
 "C10": dict(text="Static analysis (partial claim). Decided: ALL potential-panic sites (explicit panics, unwrap family, every overflow/bounds/division assert, curated panicking std calls incl. slicing) reachable from tfm_to_pl / pl_to_tfm and the tftopl / pltotf tools — the tfm crate, the tools and the common crate — are discharged (constant, dominating comparison, type, interval, size), audited with a per-site invariant (some re-checked by `requires` clauses and recorded guards) or reproduced findings; 0 undecided; the eleven sub-file sizes are checked non-negative and the declared length is checked in byte units before slicing; every warning sorted by offset carries one; lossless narrowing; recursion inventory. NOT decided: that PL->TFM output is accepted by the TFM reader; termination (DESIGN §11.5).",
             note=TRUST+"Most discharges in the tfm crate are the authors' stated invariants (expect messages), read and accepted — arguments by reading, listed in tables/pps_audited.json.",
             tech="potential-panic-site enumeration over the call graph from the conversion entry points, with guard/type/const discharge and an audited table"),
 "C16": dict(text="Static analysis: the deserializer's table (op_code = 0..=255, exhaustive) and the serializer's table (every Op variant x Var x move_h x fast/slow path, plus the u32_var/i32_var offset tables) are extracted from MIR by finite-domain specialisation and compared cell by cell: variant, constants, operand widths, signedness and field order. Axis partition of w/x/y/z agrees across Values::update and VarRemover, which passes all other operations through; surplus pop, whole-frame restore on pop, page reset, 223-byte count, one string encoding on both sides, lossless narrowing. Reader totality: every potential-panic site of deserialize and its callees discharged, audited or a reproduced finding. Not decided: value-level boundary arithmetic of the 3-byte signed form, position preservation as a value statement (DESIGN §11.5).",
             note=TRUST+"DVI opcode semantics are taken from the reader/writer pair themselves (agreement), plus DVI's fnt_def/string layouts transcribed by hand.",
             tech="decision-table extraction (abstract interpretation of MIR over finite key domains) + table agreement + potential-panic-site discharge"),
 "C18": dict(text="Static analysis (partial claim). Decided: the ds<->AST converters of the Box language cover every field of every ds struct and every variant of every ds/AST enum in both directions (audited drops only, tied to the property's stated exclusions); ALL potential-panic sites reachable from parse_*, format and the printers (boxworks::lang, boxworks::ds, common) are discharged, audited or reproduced findings, 0 undecided; escape range shared by lexer and printer; the formatter's mode switch; cursor discipline and agreement of the lexer's two scanners; sign over integer + fraction; characters counted as characters and byte offsets never produced from character counts; lossless narrowing; recursion inventory. NOT decided: that print and parse are inverse on values, formatter idempotence as a whole (DESIGN §11.5).",
             note=TRUST+"Keyword agreement of printer and parser holds by construction (one functions! macro table defines both).",
             tech="field/variant coverage analysis over MIR of the converter impls + potential-panic-site discharge"),
 "C20": dict(text="Static analysis. The concurrent clause (tags pairwise distinct under every schedule; a static tag resolves to one value) is decided by lock discipline in Tag::new — one Mutex guard, value read and checked write-back under it, strictly monotone — plus who-may rules (the counter, Tag construction, forging impls, StaticTag's OnceLock::get_or_init). For the containers: the API surface (no mutable bypass: who-may-write + signatures, and compile_fail witnesses in the thorough tier) and structural necessary conditions — purge loop, interner chain discipline and who may write the de-duplication map, iterated KMP fallback, KMP state moves, computed prefix function, iter_all's accumulated lookup. Model equivalence of the scoped map, full interner correctness and exact KMP match positions are behavioural and NOT decided (DESIGN §11.5).",
             note=TRUST+"Mutual exclusion and OnceLock's once-semantics are std guarantees (trusted).",
             tech="lock-discipline / def-use rule on MIR + who-may-access rules + compile_fail witnesses"),
}
ORDER = ["C01","C03","C06","C07","C08","C09","C10","C16","C18","C20"]
PENDING = [p for p in ORDER if p not in CLAIMED]
checks = []
for p in ORDER:
    if p not in CLAIMED: continue
    c = CLAIMED[p]
    checks.append({"property_id":p,"quick_cmd":"./check %s --tier quick"%p,"thorough_cmd":"./check %s --tier thorough"%p,
      "evidence_file":"evidence/%s.json"%p,"replay_cmd_template":"./check %s --replay {path}"%p,"engine":"txv",
      "level_claimed":{"category":"other","text":c["text"],"design_ref":"DESIGN.md §3 %s"%p},
      "level_note":c["note"],"technique":c["tech"]})
na = dict(NA)
for p in PENDING:
    na[p] = "check under construction in this session (static rules designed in DESIGN §3); not claimed until its command exists"
m = {
 "version":1,
 "setup_cmd":"./setup.sh",
 "hooks":{"guard":"none","enable":"no hooks: static analysis reads /repo's source through a rustc driver; nothing in /repo is instrumented","baseline_off_cmd":"cd /repo && cargo test --workspace --no-fail-fast --offline","source_commits":[],"add_only":True},
 "engines":[
  {"name":"txv-driver","path":"driver/","serves_properties":sorted(CLAIMED),"kind_free_text":"rustc_private fact extractor (MIR, ADTs, impls, reifications, unsafe blocks) run as RUSTC_WORKSPACE_WRAPPER under cargo +nightly check --workspace"},
  {"name":"txv","path":"txv/","serves_properties":sorted(CLAIMED),"kind_free_text":"Python rule engine over the MIR facts: CFG must-pass-through, dominators, loops, def-use flow, linear-resource analysis, call graph, registry extraction, decision-table extraction, potential-panic-site discharge"}],
 "checks":checks,
 "not_applicable":[{"property_id":k,"reason":v} for k,v in sorted(na.items())],
 "notes":"All checks share one fact extraction keyed by a content hash of /repo's working tree (re-extracted whenever a source file changes). Exit 2 = analysis broken (missing anchor / below floor), never a verdict. fix: commits in /repo: 6a1534c, 0b8b57a, 5045ecf (see known_findings.jsonl)."
}
json.dump(m,open(os.path.join(os.path.dirname(os.path.abspath(__file__)),'MANIFEST.json'),'w'),indent=1)
print("claimed:",[c["property_id"] for c in checks])
