//! Type-level witnesses (compile_fail doc tests), each paired with a compiling
//! twin that differs only in the offending line.  Run with
//! `cargo +nightly test --doc --offline` (stable ignores the error codes).

/// W1 — the scoped map's storage cannot be mutated behind the group log.
///
/// Twin (compiles): reading through `backing_container()`.
/// ```
/// use texcraft_stdext::collections::groupingmap::{GroupingHashMap, Scope};
/// let mut m: GroupingHashMap<u32, u32> = Default::default();
/// m.insert(1, 2, Scope::Local);
/// let v = m.backing_container().get(&1).copied();
/// assert_eq!(v, Some(2));
/// ```
/// Witness: inserting through `backing_container()` must not type-check.
/// ```compile_fail,E0596
/// use texcraft_stdext::collections::groupingmap::{GroupingHashMap, Scope};
/// let mut m: GroupingHashMap<u32, u32> = Default::default();
/// m.insert(1, 2, Scope::Local);
/// let v = m.backing_container().insert(1, 3);
/// ```
pub struct W1GroupingContainerNoMutableBypass;

/// W2 — a `Tag` cannot be built outside `texlang::command`.
///
/// Twin (compiles):
/// ```
/// let t = texlang::command::Tag::new();
/// let _ = t;
/// ```
/// Witness: the tuple constructor is private.
/// ```compile_fail,E0603
/// let t = texlang::command::Tag(std::num::NonZeroU32::new(1).unwrap());
/// let _ = t;
/// ```
pub struct W2TagNotForgeable;

/// W3 — expansion primitives cannot assign: `ExpansionInput` has no `state_mut`.
///
/// Twin (compiles): `ExecutionInput` has it.
/// ```
/// fn f<S: texlang::traits::TexlangState>(input: &mut texlang::vm::ExecutionInput<S>) {
///     let _ = input.state_mut();
/// }
/// ```
/// Witness:
/// ```compile_fail,E0599
/// fn f<S: texlang::traits::TexlangState>(input: &mut texlang::vm::ExpansionInput<S>) {
///     let _ = input.state_mut();
/// }
/// ```
pub struct W3ExpansionInputCannotMutateState;

/// W4 — expansion primitives cannot reach the commands map mutably.
///
/// Twin (compiles):
/// ```
/// fn f<S: texlang::traits::TexlangState>(input: &mut texlang::vm::ExecutionInput<S>) {
///     let _ = input.commands_map_mut();
/// }
/// ```
/// Witness:
/// ```compile_fail,E0599
/// fn f<S: texlang::traits::TexlangState>(input: &mut texlang::vm::ExpansionInput<S>) {
///     let _ = input.commands_map_mut();
/// }
/// ```
pub struct W4ExpansionInputCannotMutateCommands;

/// W5 — the matcher's pattern is immutable once the prefix table is built.
///
/// Twin (compiles):
/// ```
/// use texcraft_stdext::algorithms::substringsearch::Matcher;
/// use texcraft_stdext::collections::nevec::Nevec;
/// let m = Matcher::new(Nevec::new(1u8));
/// let n = m.substring().len();
/// assert_eq!(n, 1);
/// ```
/// Witness:
/// ```compile_fail,E0596
/// use texcraft_stdext::algorithms::substringsearch::Matcher;
/// use texcraft_stdext::collections::nevec::Nevec;
/// let mut m = Matcher::new(Nevec::new(1u8));
/// m.substring().push(2u8);
/// ```
pub struct W5MatcherPatternImmutable;

/// W6 — a `ShutdownSignal`-free way to stop the VM does not exist for
/// expansion input: `shutdown()` is only on `ExecutionInput`.
///
/// Twin (compiles):
/// ```
/// fn f<S: texlang::traits::TexlangState>(input: &mut texlang::vm::ExecutionInput<S>) -> texlang::vm::ShutdownSignal {
///     input.shutdown()
/// }
/// ```
/// Witness: the VM's own `shutdown` is crate-private.
/// ```compile_fail,E0624
/// fn f<S: texlang::traits::TexlangState>(vm: &mut texlang::vm::VM<S>) {
///     let _ = vm.shutdown();
/// }
/// ```
pub struct W6VmShutdownPrivate;
