import sys
name, prefix, ch, n = sys.argv[1], sys.argv[2], sys.argv[3], int(sys.argv[4])
chunk = ch * (1<<24)
with open(name,'w') as f:
    f.write(prefix)
    left = n
    while left > 0:
        k = min(left, 1<<24)
        f.write(chunk[:k])
        left -= k
