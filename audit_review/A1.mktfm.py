import struct
def tfm(header=None, bc=1, ec=0, char_infos=b'', widths=(0,), heights=(0,), depths=(0,), italics=(0,), ligkern=b'', kerns=(), exts=b'', params=(), lh=None, raw_sizes=None):
    if header is None:
        header = struct.pack('>Ii', 0, 10<<20)
    if lh is None: lh = len(header)//4
    def words(ws): return b''.join(struct.pack('>i', w) for w in ws)
    body = header + char_infos + words(widths)+words(heights)+words(depths)+words(italics)+ligkern+words(kerns)+exts+words(params)
    sizes = [0, lh, bc, ec, len(widths), len(heights), len(depths), len(italics), len(ligkern)//4, len(kerns), len(exts)//4, len(params)]
    sizes[0] = 6 + len(body)//4
    if raw_sizes: sizes = raw_sizes
    return b''.join(struct.pack('>h', s) for s in sizes) + body
