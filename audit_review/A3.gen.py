#!/usr/bin/env python3
# Generates the 2 GiB inputs used to overflow the i32 depth counters (debug build).
# usage: python3 gen.py NAME   (NAME in the table below); writes NAME.tex in the cwd
import sys
N = 1 << 31
CASES = {
    # name: (prefix, repeated byte)
    'A_false':        (b'\\let~=\\iftrue \\iffalse ', b'~'),        # conditional.rs:163
    'B_ifcase':       (b'\\let~=\\iftrue \\ifcase 1 ', b'~'),       # conditional.rs:336
    'C_or':           (b'\\let~=\\iftrue \\ifcase 0 \\or ', b'~'),  # conditional.rs:408
    'D_else':         (b'\\let~=\\iftrue \\iftrue \\else ', b'~'),  # conditional.rs:469
    'E_ifcase_plus1': (b'\\let~=\\or \\ifcase -1 ', b'~'),          # conditional.rs:370 (the `+ 1`)
    'F_def':          (b'\\def\\a{', b'{'),                         # def.rs:261
}
name = sys.argv[1]
pre, ch = CASES[name]
chunk = ch * (1 << 24)
with open(name + '.tex', 'wb') as f:
    f.write(pre)
    left = N
    while left > 0:
        k = min(left, len(chunk))
        f.write(chunk[:k])
        left -= k
