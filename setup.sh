#!/bin/sh
# Build the fact extractor (rustc_private driver, nightly, zero dependencies)
# and warm the dependency cache by extracting facts once.  Offline.
set -e
cd "$(dirname "$0")"
export CARGO_NET_OFFLINE=true
(cd driver && cargo build --offline)
python3 -m txv.extract >/dev/null
echo "txv setup done"
